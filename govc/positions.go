package main

// Position sweep (C03): "errors carry a position inside the source" needs every syntax-tree node that an
// error message can point at to carry the position the parser saw. Go zero-initialises a field that a
// composite literal leaves out, and a zero Position is reported as 0:0 (outside every source).
//
//   positions[Cnn] <name>: pkg <package name> ; node-pkg <package name> ; fields F G ...
//
// For every function of <pkg> and every allocation in it of a struct type of <node-pkg> that has one of
// the listed fields (of type lexer.Position): the function assigns that field of the new node, and the
// value assigned is not a constant. One obligation per allocation site. A sweep that finds no such
// allocation is an error (vacuous).

import (
	"fmt"
	"go/types"
	"sort"
	"strings"

	"golang.org/x/tools/go/ssa"
	"golang.org/x/tools/go/ssa/ssautil"
)

type PositionsSpec struct {
	Name    string
	Pkg     string
	NodePkg string
	Fields  []string
	Props   []string
	Where   string
}

func parsePositionsSpec(rest string, props []string, where string) (*PositionsSpec, error) {
	i := strings.Index(rest, ":")
	if i < 0 {
		return nil, fmt.Errorf("expected: positions <name>: pkg ... ; node-pkg ... ; fields ...")
	}
	s := &PositionsSpec{Name: strings.TrimSpace(rest[:i]), Props: props, Where: where}
	for _, part := range strings.Split(rest[i+1:], ";") {
		f := strings.Fields(part)
		if len(f) < 2 {
			continue
		}
		switch f[0] {
		case "pkg":
			s.Pkg = f[1]
		case "node-pkg":
			s.NodePkg = f[1]
		case "fields":
			s.Fields = append(s.Fields, f[1:]...)
		default:
			return nil, fmt.Errorf("unknown positions part %q", f[0])
		}
	}
	if s.Pkg == "" || s.NodePkg == "" || len(s.Fields) == 0 {
		return nil, fmt.Errorf("positions needs pkg, node-pkg and fields")
	}
	return s, nil
}

func (w *World) verifyPositions(sp *PositionsSpec) (res *UnitResult) {
	res = &UnitResult{Name: "positions " + sp.Name, Kind: "sweep"}
	fc := &FuncContract{Name: "positions." + sp.Name, Props: sp.Props}
	x := NewExec(w, nil, fc)
	x.curProps = sp.Props
	res.Ctx = x
	type site struct {
		fn    *ssa.Function
		alloc *ssa.Alloc
	}
	var sites []site
	for fn := range ssautil.AllFunctions(w.prog) {
		if !w.inRepo(fn) || fn.Pkg == nil || fn.Pkg.Pkg.Name() != sp.Pkg {
			continue
		}
		if pos := fn.Pos(); pos.IsValid() && strings.HasSuffix(w.fset.Position(pos).Filename, "_test.go") {
			continue
		}
		for _, b := range fn.Blocks {
			for _, in := range b.Instrs {
				if a, ok := in.(*ssa.Alloc); ok && a.Comment == "complit" {
					sites = append(sites, site{fn, a})
				}
			}
		}
	}
	sort.Slice(sites, func(i, j int) bool { return sites[i].alloc.Pos() < sites[j].alloc.Pos() })
	n := 0
	perFn := map[string]int{}
	for _, s := range sites {
		named, st, ok := isNamedStruct(deref(s.alloc.Type()))
		if !ok || named.Obj().Pkg() == nil || named.Obj().Pkg().Name() != sp.NodePkg {
			continue
		}
		for i := 0; i < st.NumFields(); i++ {
			f := st.Field(i)
			if !contains(sp.Fields, f.Name()) {
				continue
			}
			if nt, ok := f.Type().(*types.Named); !ok || nt.Obj().Name() != "Position" {
				continue
			}
			n++
			assigned, constant := false, false
			for _, r := range *s.alloc.Referrers() {
				fa, ok := r.(*ssa.FieldAddr)
				if !ok || fa.Field != i {
					continue
				}
				for _, r2 := range *fa.Referrers() {
					if store, ok := r2.(*ssa.Store); ok && store.Addr == ssa.Value(fa) {
						assigned = true
						if _, isConst := store.Val.(*ssa.Const); isConst {
							constant = true
						}
					}
				}
			}
			key := funcKey(outermost(s.fn)) + "/" + named.Obj().Name() + "." + f.Name()
			perFn[key]++
			okSite := assigned && !constant
			desc := fmt.Sprintf("the %s.%s node built at %s gets its %s from a position the parser saw", sp.NodePkg, named.Obj().Name(), x.pos(s.alloc.Pos()), f.Name())
			if !assigned {
				desc += "; BUT the field is never assigned (it stays 0:0)"
			} else if constant {
				desc += "; BUT it is assigned a constant"
			}
			x.count["position"]++
			x.obls = append(x.obls, &Obligation{Name: fmt.Sprintf("positions.%s/%s#%d", sp.Name, key, perFn[key]), Kind: "position-site", Func: "positions " + sp.Name,
				Desc: desc, Pos: sp.Where, Goal: x.c.Bool(okSite), Props: sp.Props, Clause: "positions", ctx: x})
		}
	}
	if n == 0 {
		res.Err = "CHECK-ERROR: the positions sweep found no node allocation with a listed field (vacuous)"
	}
	l := "positions sweep: that a node's position field is assigned something non-constant is checked; that the value is the position of the right token is not"
	res.Ledger = append(res.Ledger, l)
	x.ledger[l] = true
	res.Obls = x.obls
	return
}
