package main

import (
	"fmt"
	"go/token"
	"go/types"

	"golang.org/x/tools/go/ssa"
)

func (x *Exec) builtin(st *State, f *ssa.Builtin, call *ssa.CallCommon, args []Value, resType types.Type, pos token.Pos) Value {
	c := x.c
	switch f.Name() {
	case "len":
		switch s := args[0].(type) {
		case SliceV:
			return Sc{s.Len}
		case StrV:
			return Sc{s.Len}
		case ArrayV:
			return Sc{c.Int(s.N)}
		case Sc:
			if mt, ok := call.Args[0].Type().Underlying().(*types.Map); ok {
				return Sc{x.mapLen(st, s.T, mt)}
			}
		case PtrV:
			if at, ok := deref(call.Args[0].Type()).Underlying().(*types.Array); ok {
				return Sc{c.Int(at.Len())}
			}
		}
		panic(unsupported("len of %T", args[0]))
	case "cap":
		switch s := args[0].(type) {
		case SliceV:
			return Sc{s.Cap}
		case ArrayV:
			return Sc{c.Int(s.N)}
		}
		panic(unsupported("cap of %T", args[0]))
	case "append":
		return x.appendBuiltin(st, call, args, pos)
	case "copy":
		return x.copyBuiltin(st, call, args, pos)
	case "delete":
		m := x.scalar(args[0])
		mt := call.Args[0].Type().Underlying().(*types.Map)
		x.mapDelete(st, m, mt, args[1])
		return TupleV{}
	case "min", "max":
		res := args[0]
		for k := 1; k < len(args); k++ {
			t := call.Args[0].Type()
			var le *Term
			if isFloat(t) {
				le = c.FOp("fp.leq", x.scalar(res), x.scalar(args[k]))
				x.ledger["min/max on floats ignores NaN propagation"] = true
			} else {
				le = c.Le(x.scalar(res), x.scalar(args[k]))
			}
			if f.Name() == "min" {
				res = x.mergeValue(le, res, args[k])
			} else {
				res = x.mergeValue(le, args[k], res)
			}
		}
		return res
	case "print", "println":
		return TupleV{}
	case "ssa:wrapnilchk":
		if p, ok := args[0].(PtrV); ok && p.Kind == PRef {
			x.oblige(st, "nilptr", "nil receiver in method value", pos, c.Neq(p.Base, c.Int(0)), nil, "")
		}
		return args[0]
	case "ssa:deferstack":
		return Sc{c.Int(0)}
	case "clear":
		x.havocForUnknown(st)
		return TupleV{}
	}
	panic(unsupported("builtin %s", f.Name()))
}

// appendBuiltin models append functionally: the result lives in a fresh backing array.
func (x *Exec) appendBuiltin(st *State, call *ssa.CallCommon, args []Value, pos token.Pos) Value {
	c := x.c
	st0 := call.Args[0].Type().Underlying().(*types.Slice)
	et := st0.Elem()
	s := args[0].(SliceV)
	var addLen *Term
	var addSeq SeqV
	switch a := args[1].(type) {
	case SliceV:
		addLen = a.Len
		addSeq = x.seqOf(st, a, call.Args[1].Type())
	case StrV:
		addLen = a.Len
		addSeq = x.seqOf(st, a, call.Args[1].Type())
	default:
		panic(unsupported("append of %T", args[1]))
	}
	x.ledger["append modelled functionally (fresh backing array; aliasing through spare capacity not modelled)"] = true
	ref := x.allocRef(st)
	newLen := c.Add(s.Len, addLen)
	newCap := c.Fresh("appcap", SInt)
	x.hyps = append(x.hyps, c.And(c.Le(newLen, newCap), c.Le(s.Cap, c.Add(newCap, c.Int(0))), c.Le(newCap, c.IntBig(maxLenBig))))
	x.oblige(st, "makeslice", "append result length stays below the length bound", pos, c.Le(newLen, c.IntBig(maxLenBig)), nil, "")
	n, isLit := c.litVal(addLen)
	for _, l := range leavesOf(et) {
		k := "E:" + typeKey(et) + l.suffix
		h := x.heapGetK(st, k, ArrSort(SInt, ArrSort(SInt, l.sort)))
		old := c.Select(h, s.Arr)
		var content *Term
		if isLit && n.Int64() <= 8 {
			content = old
			for j := int64(0); j < n.Int64(); j++ {
				content = c.Store(content, c.Add(c.Add(s.Off, s.Len), c.Int(j)), c.Select(addSeq.C[l.suffix], c.Add(addSeq.Off, c.Int(j))))
			}
		} else {
			content = c.Fresh("appended", ArrSort(SInt, l.sort))
			kv := c.BoundVar("k", SInt)
			body := c.And(
				c.Implies(c.And(c.Le(s.Off, kv), c.Lt(kv, c.Add(s.Off, s.Len))), c.Eq(c.Select(content, kv), c.Select(old, kv))),
				c.Implies(c.And(c.Le(c.Add(s.Off, s.Len), kv), c.Lt(kv, c.Add(s.Off, newLen))),
					c.Eq(c.Select(content, kv), c.Select(addSeq.C[l.suffix], c.Add(addSeq.Off, c.Sub(kv, c.Add(s.Off, s.Len)))))))
			x.assume(st, c.Forall([]*Term{kv}, body, [][]*Term{{c.Select(content, kv)}}))
		}
		st.heap[k] = c.Store(h, ref, content)
	}
	// same offset as the source keeps the copy quantifier-free
	return SliceV{ref, s.Off, newLen, newCap}
}

func (x *Exec) copyBuiltin(st *State, call *ssa.CallCommon, args []Value, pos token.Pos) Value {
	c := x.c
	dst := args[0].(SliceV)
	et := call.Args[0].Type().Underlying().(*types.Slice).Elem()
	var srcLen *Term
	var src SeqV
	switch a := args[1].(type) {
	case SliceV:
		srcLen = a.Len
		src = x.seqOf(st, a, call.Args[1].Type())
	case StrV:
		srcLen = a.Len
		src = x.seqOf(st, a, call.Args[1].Type())
	}
	n := c.Ite(c.Le(dst.Len, srcLen), dst.Len, srcLen)
	for _, l := range leavesOf(et) {
		k := "E:" + typeKey(et) + l.suffix
		h := x.heapGetK(st, k, ArrSort(SInt, ArrSort(SInt, l.sort)))
		old := c.Select(h, dst.Arr)
		content := c.Fresh("copied", ArrSort(SInt, l.sort))
		kv := c.BoundVar("k", SInt)
		in := c.And(c.Le(dst.Off, kv), c.Lt(kv, c.Add(dst.Off, n)))
		body := c.And(
			c.Implies(in, c.Eq(c.Select(content, kv), c.Select(src.C[l.suffix], c.Add(src.Off, c.Sub(kv, dst.Off))))),
			c.Implies(c.Not(in), c.Eq(c.Select(content, kv), c.Select(old, kv))))
		x.assume(st, c.Forall([]*Term{kv}, body, [][]*Term{{c.Select(content, kv)}}))
		st.heap[k] = c.Store(h, dst.Arr, content)
	}
	return Sc{n}
}

// ---- maps ------------------------------------------------------------------------------------------

func (x *Exec) mapKeySort(mt *types.Map) Sort { return SInt }

// mapKeyTerm turns a key value into the map's index term.
func (x *Exec) mapKeyTerm(st *State, mt *types.Map, k Value) *Term {
	c := x.c
	kt := mt.Key()
	switch {
	case isString(kt):
		if sq, isSeq := k.(SeqV); isSeq {
			// a string-typed bound variable of a contract: the key it would denote; no facts about it can be
			// stated outside its binder (an arbitrary key: that is what the quantifier means)
			return c.App("str_id", SInt, sq.C[""], sq.Off, sq.Len)
		}
		s := k.(StrV)
		id := c.App("str_id", SInt, x.strContent(s.Ref), s.Off, s.Len)
		// injectivity against the keys seen so far
		for _, o := range x.strKeys {
			x.hyps = append(x.hyps, c.Eq(c.Eq(id, o.id), x.strEq(s, o.s)))
		}
		dup := false
		for _, o := range x.strKeys {
			if o.id == id {
				dup = true
			}
		}
		if !dup {
			x.strKeys = append(x.strKeys, strKey{s, id})
		}
		return id
	case isInteger(kt), isBool(kt):
		if isBool(kt) {
			return c.Ite(x.scalar(k), c.Int(1), c.Int(0))
		}
		return x.scalar(k)
	}
	if _, ok := kt.Underlying().(*types.Pointer); ok {
		return x.ptrTerm(k)
	}
	if _, ok := kt.Underlying().(*types.Interface); ok {
		i := k.(IfaceV)
		return c.App("iface_id", SInt, i.Tag, i.Val)
	}
	panic(unsupported("map key type %s", kt))
}

type strKey struct {
	s  StrV
	id *Term
}

func (x *Exec) mapPresent(st *State, mt *types.Map) (string, *Term) {
	k := "M:" + typeKey(mt) + "#present"
	return k, x.heapGetK(st, k, ArrSort(SInt, ArrSort(SInt, SBool)))
}

func (x *Exec) mapInit(st *State, ref *Term, t types.Type) {
	c := x.c
	mt := t.Underlying().(*types.Map)
	k, h := x.mapPresent(st, mt)
	empty := x.zeroLeaf(ArrSort(SInt, SBool))
	st.heap[k] = c.Store(h, ref, empty)
	x.hyps = append(x.hyps, c.Eq(c.App("map_card", SInt, empty), c.Int(0)))
}

func (x *Exec) mapLen(st *State, m *Term, mt *types.Map) *Term {
	c := x.c
	_, h := x.mapPresent(st, mt)
	n := c.App("map_card", SInt, c.Select(h, m))
	x.hyps = append(x.hyps, c.Le(c.Int(0), n))
	return n
}

func (x *Exec) mapGet(st *State, m *Term, mt *types.Map, key Value) Value {
	c := x.c
	kt := x.mapKeyTerm(st, mt, key)
	_, ph := x.mapPresent(st, mt)
	present := c.Select(c.Select(ph, m), kt)
	vt := mt.Elem()
	ls := leavesOf(vt)
	ts := make([]*Term, len(ls))
	for i, l := range ls {
		hk := "M:" + typeKey(mt) + "#val" + l.suffix
		h := x.heapGetK(st, hk, ArrSort(SInt, ArrSort(SInt, l.sort)))
		ts[i] = c.Ite(present, c.Select(c.Select(h, m), kt), x.zeroLeaf(l.sort))
	}
	v := x.unflatten(vt, &ts)
	x.assumeRanges(st, v, vt)
	return v
}

func (x *Exec) lookup(st *State, i *ssa.Lookup) {
	c := x.c
	if isString(i.X.Type()) {
		s := x.val(st, i.X).(StrV)
		idx := x.scalar(x.val(st, i.Index))
		x.oblige(st, "bounds", "string index within length", i.Pos(), c.And(c.Le(c.Int(0), idx), c.Lt(idx, s.Len)), nil, "")
		b := c.Select(x.strContent(s.Ref), c.Add(s.Off, idx))
		x.assumeByte(b)
		x.regs[i] = Sc{b}
		return
	}
	mt := i.X.Type().Underlying().(*types.Map)
	m := x.scalar(x.val(st, i.X))
	key := x.val(st, i.Index)
	v := x.mapGet(st, m, mt, key)
	if i.CommaOk {
		kt := x.mapKeyTerm(st, mt, key)
		_, ph := x.mapPresent(st, mt)
		present := c.And(c.Neq(m, c.Int(0)), c.Select(c.Select(ph, m), kt))
		x.regs[i] = TupleV{E: []Value{v, Sc{present}}}
		return
	}
	x.regs[i] = v
}

func (x *Exec) mapUpdate(st *State, i *ssa.MapUpdate) {
	c := x.c
	mt := i.Map.Type().Underlying().(*types.Map)
	m := x.scalar(x.val(st, i.Map))
	x.oblige(st, "nilmap", fmt.Sprintf("assignment to entry in nil map %s", i.Map.Name()), i.Pos(), c.Neq(m, c.Int(0)), nil, "")
	kt := x.mapKeyTerm(st, mt, x.val(st, i.Key))
	pk, ph := x.mapPresent(st, mt)
	st.heap[pk] = c.Store(ph, m, c.Store(c.Select(ph, m), kt, c.True()))
	vt := mt.Elem()
	ts := x.flatten(x.val(st, i.Value), vt)
	for k, l := range leavesOf(vt) {
		hk := "M:" + typeKey(mt) + "#val" + l.suffix
		h := x.heapGetK(st, hk, ArrSort(SInt, ArrSort(SInt, l.sort)))
		st.heap[hk] = c.Store(h, m, c.Store(c.Select(h, m), kt, ts[k]))
	}
}

func (x *Exec) mapDelete(st *State, m *Term, mt *types.Map, key Value) {
	c := x.c
	kt := x.mapKeyTerm(st, mt, key)
	pk, ph := x.mapPresent(st, mt)
	st.heap[pk] = c.Store(ph, m, c.Store(c.Select(ph, m), kt, c.False()))
}

// ---- range ------------------------------------------------------------------------------------------

type rangeIter struct {
	x    Value
	t    types.Type
	instr *ssa.Range
}

func (x *Exec) rangeStart(st *State, i *ssa.Range) {
	x.regs[i] = rangeIter{x.val(st, i.X), i.X.Type(), i}
	if isString(i.X.Type()) {
		// the byte index of the previous iteration of this range-over-string loop: -1 before the first.
		// Contracts name it rangeposK (K-th range-over-string loop of the function, in source order).
		st.ghost[rangePosName(i)] = x.c.Int(-1)
	}
}

// rangePosName: "rangeposK" for the K-th range-over-string statement of the function (source order).
func rangePosName(r *ssa.Range) string {
	k := 1
	for _, b := range r.Parent().Blocks {
		for _, in := range b.Instrs {
			if o, ok := in.(*ssa.Range); ok && o != r && isString(o.X.Type()) && o.Pos() < r.Pos() {
				k++
			}
		}
	}
	return fmt.Sprintf("rangepos%d", k)
}

func (x *Exec) rangeNext(st *State, i *ssa.Next) {
	c := x.c
	it := x.val(st, i.Iter).(rangeIter)
	ok := c.Fresh("range_ok", SBool)
	tu := i.Type().(*types.Tuple)
	if i.IsString {
		s := it.x.(StrV)
		idx := c.Fresh("range_i", SInt)
		r := c.Fresh("range_rune", SInt)
		x.hyps = append(x.hyps, c.Implies(ok, c.And(c.Le(c.Int(0), idx), c.Lt(idx, s.Len))))
		x.hyps = append(x.hyps, c.And(c.Le(c.Int(0), r), c.Le(r, c.Int(0x10FFFF))))
		// ASCII byte at the index decodes to itself
		b := c.Select(x.strContent(s.Ref), c.Add(s.Off, idx))
		x.hyps = append(x.hyps, c.Implies(c.And(ok, c.Lt(b, c.Int(128))), c.Eq(r, b)))
		// indexes increase: the first is 0, each next one lies 1 to 4 bytes after the previous one, and the
		// loop ends only when fewer than 1..4 bytes are left after the previous index
		if it.instr != nil {
			name := rangePosName(it.instr)
			if prev, has := st.ghost[name]; has {
				x.hyps = append(x.hyps, c.Implies(st.reach, c.Implies(ok, c.And(c.Lt(prev, idx), c.Le(idx, c.Add(prev, c.Int(4))), c.Implies(c.Eq(prev, c.Int(-1)), c.Eq(idx, c.Int(0)))))))
				x.hyps = append(x.hyps, c.Implies(st.reach, c.Implies(c.Not(ok), c.And(c.Lt(prev, s.Len), c.Le(s.Len, c.Add(prev, c.Int(4))), c.Implies(c.Eq(prev, c.Int(-1)), c.Eq(s.Len, c.Int(0)))))))
				// an ASCII byte is a whole character: the next index is the one after it
				pb := c.Select(x.strContent(s.Ref), c.Add(s.Off, prev))
				ascii := c.And(c.Le(c.Int(0), prev), c.Lt(pb, c.Int(128)))
				x.hyps = append(x.hyps, c.Implies(st.reach, c.Implies(c.And(ok, ascii), c.Eq(idx, c.Add(prev, c.Int(1))))))
				x.hyps = append(x.hyps, c.Implies(st.reach, c.Implies(c.And(c.Not(ok), ascii), c.Eq(s.Len, c.Add(prev, c.Int(1))))))
				st.ghost[name] = c.Ite(ok, idx, prev)
			}
		}
		x.ledger["range over string: indexes increase by 1 to 4 bytes from 0 to the end; the rune is unconstrained for non-ASCII bytes (UTF-8 boundaries not modelled)"] = true
		x.regs[i] = TupleV{E: []Value{Sc{ok}, Sc{idx}, Sc{r}}}
		return
	}
	mt := it.t.Underlying().(*types.Map)
	m := x.scalar(it.x)
	keyT := tu.At(1).Type()
	if b, isB := keyT.(*types.Basic); isB && b.Kind() == types.Invalid {
		keyT = mt.Key() // key not used by the loop: the tuple carries an invalid type
	}
	key := x.freshValue("range_k", keyT)
	x.assumeRanges(st, key, keyT)
	kt := x.mapKeyTerm(st, mt, key)
	_, ph := x.mapPresent(st, mt)
	x.hyps = append(x.hyps, c.Implies(ok, c.And(c.Neq(m, c.Int(0)), c.Select(c.Select(ph, m), kt))))
	val := x.mapGet(st, m, mt, key)
	x.ledger["range over map: key is an arbitrary present key each iteration (order and exactly-once not modelled)"] = true
	x.regs[i] = TupleV{E: []Value{Sc{ok}, key, val}}
}

// intrinsic: functions modelled directly by the engine.
func (x *Exec) intrinsic(st *State, fn *ssa.Function, args []Value, resType types.Type, pos token.Pos) (Value, bool) {
	c := x.c
	if fn.Pkg == nil {
		return nil, false
	}
	switch fn.Pkg.Pkg.Path() + "." + fn.Name() {
	case "math.IsNaN":
		return Sc{c.FOp("fp.isNaN", x.scalar(args[0]))}, true
	case "math.IsInf":
		f := x.scalar(args[0])
		sign := x.scalar(args[1])
		inf := c.FOp("fp.isInfinite", f)
		neg := c.FOp("fp.isNegative", f)
		return Sc{c.And(inf, c.Or(c.Eq(sign, c.Int(0)), c.And(c.Lt(c.Int(0), sign), c.Not(neg)), c.And(c.Lt(sign, c.Int(0)), neg)))}, true
	case "math.Trunc":
		return Sc{c.FOp("fp.trunc", x.scalar(args[0]))}, true
	case "math.Abs":
		return Sc{c.FOp("fp.abs", x.scalar(args[0]))}, true
	case "math.Inf":
		sign := x.scalar(args[0])
		pinf := c.mk("(_ +oo 11 53)", SF64)
		ninf := c.mk("(_ -oo 11 53)", SF64)
		return Sc{c.Ite(c.Le(c.Int(0), sign), pinf, ninf)}, true
	case "math.NaN":
		return Sc{c.mk("(_ NaN 11 53)", SF64)}, true
	case "math.Floor":
		return Sc{c.mk("fp.roundToIntegral", SF64, c.mk("RTN", "RoundingMode"), x.scalar(args[0]))}, true
	case "math.Ceil":
		return Sc{c.mk("fp.roundToIntegral", SF64, c.mk("RTP", "RoundingMode"), x.scalar(args[0]))}, true
	}
	return nil, false
}
