package main

// SMT term layer: hash-consed terms, two integer encodings (math Int / 64-bit
// vectors), printing with define-fun sharing and cone-of-influence pruning.

import (
	"fmt"
	"math/big"
	"sort"
	"strings"
)

type Sort string

const (
	SBool Sort = "Bool"
	SInt  Sort = "Int" // the function's integer sort: Int or (_ BitVec 64), see Ctx.bv
	SF64  Sort = "(_ FloatingPoint 11 53)"
	SReal Sort = "Real"
)

func ArrSort(idx, el Sort) Sort { return Sort("(Array " + string(idx) + " " + string(el) + ")") }

type Term struct {
	id    int
	op    string // operator, or symbol name for leaves
	args  []*Term
	sort  Sort
	leaf  bool // declared constant / literal / bound variable
	decl  bool // needs declare-const
	bound bool // mentions a bound variable (cannot be hoisted)
	raw   string
}

func (t *Term) String() string { return t.raw }

// Ctx is the term factory for one verification unit (one function / lemma).
type Ctx struct {
	bv     bool // integers are 64-bit vectors
	tab    map[string]*Term
	n      int
	fresh  int
	funcs  map[string]string // uninterpreted function declarations: name -> "(args) ret"
	forder []string
	liftDepth int
	seedSmall bool // ground instantiation seeds small integer literals (model extraction)
	// an open hermetic section (see begin): the terms made since it was opened
	hermetic bool
	jKeys    []string
	jTerms   []*Term
}

// begin opens a hermetic section: every term made until rollback is forgotten again, and the term and
// fresh-name counters return to their values at begin. The text of a query is rendered inside one
// (the instances, skolem constants and case-specialised copies made for it are used for nothing
// else), so that it does not depend on which other queries were rendered before it: obligations are
// discharged concurrently, and the numbering would otherwise follow the scheduler.
// Nothing made inside the section may be kept by the caller.
func (c *Ctx) begin() (n, fresh int) {
	if c.hermetic {
		panic("nested hermetic section")
	}
	c.hermetic = true
	return c.n, c.fresh
}

func (c *Ctx) rollback(n, fresh int) {
	for _, k := range c.jKeys {
		delete(c.tab, k)
	}
	for _, t := range c.jTerms {
		delete(qpats, t)
		delete(qnvars, t)
	}
	c.jKeys, c.jTerms = c.jKeys[:0], c.jTerms[:0]
	c.n, c.fresh = n, fresh
	c.hermetic = false
}

func NewCtx(bv bool) *Ctx {
	return &Ctx{bv: bv, tab: map[string]*Term{}, funcs: map[string]string{}}
}

func (c *Ctx) IntSort() Sort {
	if c.bv {
		return "(_ BitVec 64)"
	}
	return "Int"
}

// rs resolves the symbolic SInt to the concrete sort of this context.
func (c *Ctx) rs(s Sort) Sort {
	if s == SInt {
		return c.IntSort()
	}
	if strings.Contains(string(s), "Int") && c.bv {
		return Sort(strings.ReplaceAll(string(s), "Int", "(_ BitVec 64)"))
	}
	return s
}

func (c *Ctx) mk(op string, sort Sort, args ...*Term) *Term {
	sort = c.rs(sort)
	var sb strings.Builder
	if len(args) == 0 {
		sb.WriteString(op)
	} else {
		sb.WriteString("(")
		sb.WriteString(op)
		for _, a := range args {
			sb.WriteString(" ")
			sb.WriteString(fmt.Sprintf("#%d", a.id))
		}
		sb.WriteString(")")
	}
	key := sb.String() + ":" + string(sort)
	if t, ok := c.tab[key]; ok {
		return t
	}
	c.n++
	t := &Term{id: c.n, op: op, args: args, sort: sort}
	for _, a := range args {
		if a.bound {
			t.bound = true
		}
	}
	if len(args) == 0 {
		t.leaf = true
		t.raw = op
	} else {
		t.raw = fmt.Sprintf("t%d", t.id)
	}
	c.tab[key] = t
	if c.hermetic {
		c.jKeys = append(c.jKeys, key)
		c.jTerms = append(c.jTerms, t)
	}
	return t
}

// Const declares (or returns) a free constant.
func (c *Ctx) Const(name string, sort Sort) *Term {
	t := c.mk(name, sort)
	t.decl = true
	return t
}

func (c *Ctx) Fresh(prefix string, sort Sort) *Term {
	c.fresh++
	return c.Const(fmt.Sprintf("%s!%d", sanitize(prefix), c.fresh), sort)
}

// dependsOnFreshSince: does t mention a Fresh constant created after the given counter value?
func (c *Ctx) dependsOnFreshSince(t *Term, mark int) bool {
	seen := map[*Term]bool{}
	var visit func(t *Term) bool
	visit = func(t *Term) bool {
		if seen[t] {
			return false
		}
		seen[t] = true
		if t.leaf {
			if i := strings.LastIndex(t.op, "!"); i >= 0 && t.decl {
				var n int
				fmt.Sscan(t.op[i+1:], &n)
				return n > mark
			}
			return false
		}
		for _, a := range t.args {
			if visit(a) {
				return true
			}
		}
		return false
	}
	return visit(t)
}

func (c *Ctx) BoundVar(name string, sort Sort) *Term {
	c.fresh++
	t := c.mk(fmt.Sprintf("%s?%d", sanitize(name), c.fresh), sort)
	t.bound = true
	return t
}

func sanitize(s string) string {
	var sb strings.Builder
	for _, r := range s {
		switch {
		case r >= 'a' && r <= 'z', r >= 'A' && r <= 'Z', r >= '0' && r <= '9', r == '_', r == '.', r == '$':
			sb.WriteRune(r)
		default:
			sb.WriteRune('_')
		}
	}
	return sb.String()
}

func (c *Ctx) True() *Term  { return c.mk("true", SBool) }
func (c *Ctx) False() *Term { return c.mk("false", SBool) }
func (c *Ctx) Bool(b bool) *Term {
	if b {
		return c.True()
	}
	return c.False()
}

func (c *Ctx) isTrue(t *Term) bool  { return t.leaf && t.op == "true" }
func (c *Ctx) isFalse(t *Term) bool { return t.leaf && t.op == "false" }

func (c *Ctx) Not(a *Term) *Term {
	if c.isTrue(a) {
		return c.False()
	}
	if c.isFalse(a) {
		return c.True()
	}
	if a.op == "not" && len(a.args) == 1 {
		return a.args[0]
	}
	return c.mk("not", SBool, a)
}

func (c *Ctx) And(as ...*Term) *Term {
	var out []*Term
	seen := map[int]bool{}
	for _, a := range as {
		if a == nil || c.isTrue(a) {
			continue
		}
		if c.isFalse(a) {
			return c.False()
		}
		if a.op == "and" && !a.leaf {
			for _, b := range a.args {
				if !seen[b.id] {
					seen[b.id] = true
					out = append(out, b)
				}
			}
			continue
		}
		if !seen[a.id] {
			seen[a.id] = true
			out = append(out, a)
		}
	}
	if len(out) == 0 {
		return c.True()
	}
	if len(out) == 1 {
		return out[0]
	}
	return c.mk("and", SBool, out...)
}

func (c *Ctx) Or(as ...*Term) *Term {
	var out []*Term
	seen := map[int]bool{}
	for _, a := range as {
		if a == nil || c.isFalse(a) {
			continue
		}
		if c.isTrue(a) {
			return c.True()
		}
		if !seen[a.id] {
			seen[a.id] = true
			out = append(out, a)
		}
	}
	if len(out) == 0 {
		return c.False()
	}
	if len(out) == 1 {
		return out[0]
	}
	return c.mk("or", SBool, out...)
}

func (c *Ctx) Implies(a, b *Term) *Term {
	if c.isTrue(a) {
		return b
	}
	if c.isFalse(a) || c.isTrue(b) {
		return c.True()
	}
	return c.mk("=>", SBool, a, b)
}

func (c *Ctx) Ite(cond, a, b *Term) *Term {
	if a == b {
		return a
	}
	if c.isTrue(cond) {
		return a
	}
	if c.isFalse(cond) {
		return b
	}
	if a.sort == SBool {
		if c.isTrue(a) && c.isFalse(b) {
			return cond
		}
		if c.isFalse(a) && c.isTrue(b) {
			return c.Not(cond)
		}
	}
	if a.sort != b.sort {
		panic(fmt.Sprintf("ite sort mismatch %s vs %s", a.sort, b.sort))
	}
	return c.mk("ite", a.sort, cond, a, b)
}

func (c *Ctx) Eq(a, b *Term) *Term {
	if a == b {
		if a.sort == c.rs(SF64) {
			// fp NaN != NaN under Go ==; this is structural "=" so fine
		}
		return c.True()
	}
	if a.sort != b.sort {
		panic(fmt.Sprintf("eq sort mismatch %s (%s) vs %s (%s)", a.sort, c.Show(a), b.sort, c.Show(b)))
	}
	if a.leaf && b.leaf && !a.decl && !b.decl && !a.bound && !b.bound {
		return c.Bool(a.op == b.op)
	}
	if a.sort == SBool {
		if c.isTrue(b) {
			return a
		}
		if c.isTrue(a) {
			return b
		}
		if c.isFalse(b) {
			return c.Not(a)
		}
		if c.isFalse(a) {
			return c.Not(b)
		}
	}
	if a.id > b.id {
		a, b = b, a
	}
	return c.mk("=", SBool, a, b)
}

func (c *Ctx) Neq(a, b *Term) *Term { return c.Not(c.Eq(a, b)) }

// ---- integers --------------------------------------------------------------

func (c *Ctx) IntBig(n *big.Int) *Term {
	if c.bv {
		m := new(big.Int).Set(n)
		mod := new(big.Int).Lsh(big.NewInt(1), 64)
		m.Mod(m, mod)
		return c.mk(fmt.Sprintf("#x%016x", m), SInt)
	}
	if n.Sign() < 0 {
		return c.mk(fmt.Sprintf("(- %s)", new(big.Int).Neg(n).String()), SInt)
	}
	return c.mk(n.String(), SInt)
}

func (c *Ctx) Int(n int64) *Term { return c.IntBig(big.NewInt(n)) }

// litVal returns the literal value of an integer term if it is one.
func (c *Ctx) litVal(t *Term) (*big.Int, bool) {
	if !t.leaf || t.decl || t.bound {
		return nil, false
	}
	if c.bv {
		if strings.HasPrefix(t.op, "#x") {
			v, ok := new(big.Int).SetString(t.op[2:], 16)
			if !ok {
				return nil, false
			}
			if v.Bit(63) == 1 {
				v.Sub(v, new(big.Int).Lsh(big.NewInt(1), 64))
			}
			return v, true
		}
		return nil, false
	}
	if strings.HasPrefix(t.op, "(- ") {
		v, ok := new(big.Int).SetString(strings.TrimSuffix(t.op[3:], ")"), 10)
		if ok {
			return v.Neg(v), true
		}
		return nil, false
	}
	v, ok := new(big.Int).SetString(t.op, 10)
	return v, ok
}

func (c *Ctx) intop(mop, bop string, a, b *Term) *Term {
	if c.bv {
		return c.mk(bop, SInt, a, b)
	}
	return c.mk(mop, SInt, a, b)
}

func (c *Ctx) Add(a, b *Term) *Term {
	if x, ok := c.litVal(a); ok {
		if y, ok := c.litVal(b); ok {
			return c.IntBig(new(big.Int).Add(x, y))
		}
		if x.Sign() == 0 {
			return b
		}
	}
	if y, ok := c.litVal(b); ok && y.Sign() == 0 {
		return a
	}
	if !c.bv {
		// push a literal addend into an if-then-else: ite(c,a,b) + k == ite(c, a+k, b+k)
		if _, ok := c.litVal(b); ok && a.op == "ite" && !a.leaf && len(a.args) == 3 {
			return c.Ite(a.args[0], c.Add(a.args[1], b), c.Add(a.args[2], b))
		}
		// keep sums in the form (x + literal): (x + c1) + c2 == x + (c1+c2)
		if x, ok := c.litVal(a); ok {
			if _, ok2 := c.litVal(b); !ok2 {
				a, b = b, a
				_ = x
			}
		}
		if y, ok := c.litVal(b); ok && a.op == "+" && len(a.args) == 2 {
			if z, ok := c.litVal(a.args[1]); ok {
				return c.Add(a.args[0], c.IntBig(new(big.Int).Add(y, z)))
			}
		}
	}
	return c.intop("+", "bvadd", a, b)
}
func (c *Ctx) Sub(a, b *Term) *Term {
	if x, ok := c.litVal(a); ok {
		if y, ok := c.litVal(b); ok {
			return c.IntBig(new(big.Int).Sub(x, y))
		}
	}
	if y, ok := c.litVal(b); ok && y.Sign() == 0 {
		return a
	}
	if !c.bv {
		if y, ok := c.litVal(b); ok {
			return c.Add(a, c.IntBig(new(big.Int).Neg(y)))
		}
		if a == b {
			return c.Int(0)
		}
	}
	return c.intop("-", "bvsub", a, b)
}
func (c *Ctx) Mul(a, b *Term) *Term {
	if x, ok := c.litVal(a); ok {
		if y, ok := c.litVal(b); ok {
			return c.IntBig(new(big.Int).Mul(x, y))
		}
	}
	return c.intop("*", "bvmul", a, b)
}
func (c *Ctx) Neg(a *Term) *Term { return c.Sub(c.Int(0), a) }

// Go's truncated division / remainder (the divisor is checked non-zero separately).
func (c *Ctx) Quo(a, b *Term) *Term {
	if c.bv {
		return c.mk("bvsdiv", SInt, a, b)
	}
	// SMT div is floor for positive divisor / euclidean; build truncated division
	q := c.mk("div", SInt, c.Abs(a), c.Abs(b))
	neg := c.mk("xor", SBool, c.Lt(a, c.Int(0)), c.Lt(b, c.Int(0)))
	return c.Ite(neg, c.Neg(q), q)
}
func (c *Ctx) Rem(a, b *Term) *Term {
	if c.bv {
		return c.mk("bvsrem", SInt, a, b)
	}
	r := c.mk("mod", SInt, c.Abs(a), c.Abs(b))
	return c.Ite(c.Lt(a, c.Int(0)), c.Neg(r), r)
}
func (c *Ctx) UQuo(a, b *Term) *Term {
	if c.bv {
		return c.mk("bvudiv", SInt, a, b)
	}
	return c.mk("div", SInt, a, b)
}
func (c *Ctx) URem(a, b *Term) *Term {
	if c.bv {
		return c.mk("bvurem", SInt, a, b)
	}
	return c.mk("mod", SInt, a, b)
}
func (c *Ctx) Abs(a *Term) *Term { return c.Ite(c.Lt(a, c.Int(0)), c.Neg(a), a) }

// Mod2 reduces a mathematical value into [0, 2^bits) (math mode) or masks (bv).
func (c *Ctx) Mod2(a *Term, bits int) *Term {
	if bits >= 64 && c.bv {
		return a
	}
	m := new(big.Int).Lsh(big.NewInt(1), uint(bits))
	if c.bv {
		mask := new(big.Int).Sub(m, big.NewInt(1))
		return c.mk("bvand", SInt, a, c.IntBig(mask))
	}
	if x, ok := c.litVal(a); ok {
		return c.IntBig(new(big.Int).Mod(x, m))
	}
	return c.mk("mod", SInt, a, c.IntBig(m))
}

// SignWrap reduces a mathematical value into the signed range of the width.
func (c *Ctx) SignWrap(a *Term, bits int) *Term {
	if c.bv {
		if bits >= 64 {
			return a
		}
		ext := c.mk(fmt.Sprintf("(_ sign_extend %d)", 64-bits), SInt,
			c.mk(fmt.Sprintf("(_ extract %d 0)", bits-1), Sort(fmt.Sprintf("(_ BitVec %d)", bits)), a))
		return ext
	}
	half := new(big.Int).Lsh(big.NewInt(1), uint(bits-1))
	full := new(big.Int).Lsh(big.NewInt(1), uint(bits))
	// ((a + half) mod full) - half
	return c.Sub(c.mk("mod", SInt, c.Add(a, c.IntBig(half)), c.IntBig(full)), c.IntBig(half))
}

func (c *Ctx) cmp(mop, bop string, a, b *Term) *Term {
	if x, ok := c.litVal(a); ok {
		if y, ok := c.litVal(b); ok {
			r := x.Cmp(y)
			switch mop {
			case "<":
				return c.Bool(r < 0)
			case "<=":
				return c.Bool(r <= 0)
			}
		}
	}
	if a == b {
		return c.Bool(mop == "<=")
	}
	if c.bv {
		return c.mk(bop, SBool, a, b)
	}
	return c.mk(mop, SBool, a, b)
}
func (c *Ctx) Lt(a, b *Term) *Term { return c.cmp("<", "bvslt", a, b) }
func (c *Ctx) Le(a, b *Term) *Term { return c.cmp("<=", "bvsle", a, b) }
func (c *Ctx) Gt(a, b *Term) *Term { return c.Lt(b, a) }
func (c *Ctx) Ge(a, b *Term) *Term { return c.Le(b, a) }

// unsigned comparisons (bv mode only differs)
func (c *Ctx) ULt(a, b *Term) *Term {
	if c.bv {
		return c.mk("bvult", SBool, a, b)
	}
	return c.Lt(a, b)
}
func (c *Ctx) ULe(a, b *Term) *Term {
	if c.bv {
		return c.mk("bvule", SBool, a, b)
	}
	return c.Le(a, b)
}

func (c *Ctx) InRange(a *Term, lo, hi *big.Int) *Term {
	return c.And(c.Le(c.IntBig(lo), a), c.Le(a, c.IntBig(hi)))
}

// ---- arrays ---------------------------------------------------------------

func elemSort(arr Sort) Sort {
	// (Array I E) -> E ; parse by bracket depth
	s := strings.TrimSuffix(strings.TrimPrefix(string(arr), "(Array "), ")")
	depth := 0
	for i, r := range s {
		switch r {
		case '(':
			depth++
		case ')':
			depth--
		case ' ':
			if depth == 0 {
				return Sort(s[i+1:])
			}
		}
	}
	panic("bad array sort " + string(arr))
}

func (c *Ctx) Select(a, i *Term) *Term {
	// select over store with syntactically equal index
	if a.op == "store" && len(a.args) == 3 && a.args[1] == i {
		return a.args[2]
	}
	if a.op == "store" && len(a.args) == 3 {
		if x, ok := c.litVal(a.args[1]); ok {
			if y, ok := c.litVal(i); ok && x.Cmp(y) != 0 {
				return c.Select(a.args[0], i)
			}
		}
	}
	if a.op == "ite" && len(a.args) == 3 && !a.leaf {
		// lift the ite out of the array: select(ite(c,A,B),i) = ite(c, select(A,i), select(B,i))
		return c.Ite(a.args[0], c.Select(a.args[1], i), c.Select(a.args[2], i))
	}
	return c.mk("select", elemSort(a.sort), a, i)
}
func (c *Ctx) Store(a, i, v *Term) *Term {
	if elemSort(a.sort) != v.sort {
		panic(fmt.Sprintf("store sort mismatch: array %s value %s", a.sort, v.sort))
	}
	return c.mk("store", a.sort, a, i, v)
}

// ---- floats ---------------------------------------------------------------

func (c *Ctx) F64Lit(f float64) *Term {
	bits := mathFloat64bits(f)
	s := fmt.Sprintf("(fp #b%01b #b%011b #x%013x)", bits>>63, (bits>>52)&0x7ff, bits&((1<<52)-1))
	return c.mk(s, SF64)
}

func (c *Ctx) FOp(op string, args ...*Term) *Term {
	switch op {
	case "fp.add", "fp.sub", "fp.mul", "fp.div":
		rm := c.mk("RNE", "RoundingMode")
		return c.mk(op, SF64, append([]*Term{rm}, args...)...)
	case "fp.neg", "fp.abs":
		return c.mk(op, SF64, args...)
	case "fp.trunc":
		rm := c.mk("RTZ", "RoundingMode")
		return c.mk("fp.roundToIntegral", SF64, rm, args[0])
	case "fp.lt", "fp.leq", "fp.gt", "fp.geq", "fp.eq", "fp.isNaN", "fp.isInfinite", "fp.isNegative", "fp.isZero":
		return c.mk(op, SBool, args...)
	}
	panic("fop " + op)
}

// App applies an uninterpreted function (declared on first use).
func (c *Ctx) App(name string, ret Sort, args ...*Term) *Term {
	name = sanitize(name)
	var as []string
	for _, a := range args {
		as = append(as, string(a.sort))
	}
	sig := "(" + strings.Join(as, " ") + ") " + string(c.rs(ret))
	if old, ok := c.funcs[name]; ok {
		if old != sig {
			panic(fmt.Sprintf("function %s redeclared: %s vs %s", name, old, sig))
		}
	} else {
		c.funcs[name] = sig
		c.forder = append(c.forder, name)
	}
	if len(args) == 0 {
		return c.Const(name, ret)
	}
	// lift a common if-then-else out of the arguments: f(ite(c,a,b), ite(c,x,y)) = ite(c, f(a,x), f(b,y))
	if strings.HasPrefix(name, "spec_") {
		var cond *Term
		ok := true
		for _, a := range args {
			if a.op == "ite" && !a.leaf && len(a.args) == 3 {
				if cond == nil {
					cond = a.args[0]
				} else if cond != a.args[0] {
					ok = false
				}
			}
		}
		if cond != nil && ok && c.liftDepth < 6 {
			t, e := make([]*Term, len(args)), make([]*Term, len(args))
			for i, a := range args {
				if a.op == "ite" && !a.leaf && len(a.args) == 3 {
					t[i], e[i] = a.args[1], a.args[2]
				} else {
					t[i], e[i] = a, a
				}
			}
			c.liftDepth++
			r := c.Ite(cond, c.App(name, ret, t...), c.App(name, ret, e...))
			c.liftDepth--
			return r
		}
	}
	return c.mk(name, ret, args...)
}

func (c *Ctx) Forall(vars []*Term, body *Term, pats [][]*Term) *Term {
	if len(vars) == 0 {
		return body
	}
	if c.isTrue(body) {
		return body
	}
	// keep only well-formed patterns (no logical connectives / ite inside, mentions a bound variable)
	var okPats [][]*Term
	for _, p := range pats {
		var ts []*Term
		for _, t := range p {
			if t.bound && patternSafe(t) {
				ts = append(ts, t)
			}
		}
		if len(ts) > 0 {
			// a multi-pattern must cover all variables; otherwise the solver rejects it
			cov := map[*Term]bool{}
			for _, t := range ts {
				collectBound(t, cov)
			}
			all := true
			for _, v := range vars {
				if !cov[v] {
					all = false
				}
			}
			if all {
				okPats = append(okPats, ts)
			}
		}
	}
	pats = okPats
	q := c.mk("forall", SBool, append(append([]*Term{}, vars...), body)...)
	q.bound = body.bound
	// recompute: q binds vars; it is closed iff all bound leaves inside are in vars. We
	// keep it simple: a quantifier is hoistable iff it has no free bound vars.
	free := map[*Term]bool{}
	collectBound(body, free)
	for _, p := range pats {
		for _, t := range p {
			collectBound(t, free)
		}
	}
	for _, v := range vars {
		delete(free, v)
	}
	q.bound = len(free) > 0
	q.op = "forall"
	qpats[q] = pats
	qnvars[q] = len(vars)
	return q
}

// symbols collects the declared constants and uninterpreted functions a term mentions (very
// generic ones excluded), for relevance filtering of hypotheses.
func (c *Ctx) symbols(t *Term, out map[string]bool, memo map[*Term]bool) {
	if memo[t] {
		return
	}
	memo[t] = true
	if t.leaf {
		if t.decl && !strings.HasPrefix(t.op, "allocTop") {
			out[t.op] = true
		}
		return
	}
	if _, ok := c.funcs[t.op]; ok {
		switch t.op {
		case "StrElem", "str_eq", "str_lt", "str_id", "str_cat":
		default:
			out[t.op] = true
		}
	}
	for _, a := range t.args {
		c.symbols(a, out, memo)
	}
	if t.op == "forall" {
		for _, p := range qpats[t] {
			for _, x := range p {
				c.symbols(x, out, memo)
			}
		}
	}
}

func patternSafe(t *Term) bool {
	if t.leaf {
		return true
	}
	switch t.op {
	case "ite", "not", "and", "or", "=>", "=", "<", "<=", ">", ">=", "distinct", "forall", "xor",
		"bvslt", "bvsle", "bvult", "bvule", "fp.lt", "fp.leq", "fp.eq", "fp.gt", "fp.geq", "fp.isNaN":
		return false
	}
	for _, a := range t.args {
		if !patternSafe(a) {
			return false
		}
	}
	return true
}

func (c *Ctx) Exists(vars []*Term, body *Term, pats [][]*Term) *Term {
	return c.Not(c.Forall(vars, c.Not(body), pats))
}

var qpats = map[*Term][][]*Term{}
var qnvars = map[*Term]int{}

func collectBound(t *Term, out map[*Term]bool) {
	if !t.bound {
		return
	}
	if t.leaf {
		out[t] = true
		return
	}
	if t.op == "forall" {
		inner := map[*Term]bool{}
		n := qnvars[t]
		collectBound(t.args[len(t.args)-1], inner)
		for _, p := range qpats[t] {
			for _, x := range p {
				collectBound(x, inner)
			}
		}
		for _, v := range t.args[:n] {
			delete(inner, v)
		}
		for k := range inner {
			out[k] = true
		}
		return
	}
	for _, a := range t.args {
		collectBound(a, out)
	}
}

// ---- printing ---------------------------------------------------------------

// inline renders a term fully (used for bound sub-terms and Show).
func (c *Ctx) inline(t *Term, named map[*Term]bool) string {
	if t.leaf {
		return t.op
	}
	if named != nil && named[t] {
		return t.raw
	}
	if t.op == "forall" {
		n := qnvars[t]
		var sb strings.Builder
		sb.WriteString("(forall (")
		for _, v := range t.args[:n] {
			sb.WriteString(fmt.Sprintf("(%s %s)", v.op, v.sort))
		}
		sb.WriteString(") ")
		body := c.inline(t.args[n], named)
		pats := qpats[t]
		if len(pats) > 0 {
			sb.WriteString("(! ")
			sb.WriteString(body)
			for _, p := range pats {
				sb.WriteString(" :pattern (")
				for i, x := range p {
					if i > 0 {
						sb.WriteString(" ")
					}
					sb.WriteString(c.inline(x, named))
				}
				sb.WriteString(")")
			}
			sb.WriteString(")")
		} else {
			sb.WriteString(body)
		}
		sb.WriteString(")")
		return sb.String()
	}
	var sb strings.Builder
	sb.WriteString("(")
	sb.WriteString(t.op)
	for _, a := range t.args {
		sb.WriteString(" ")
		sb.WriteString(c.inline(a, named))
	}
	sb.WriteString(")")
	return sb.String()
}

// Show renders a term for humans (bounded size).
func (c *Ctx) Show(t *Term) string {
	s := c.inline(t, nil)
	if len(s) > 400 {
		s = s[:400] + "…"
	}
	return s
}

// Emit writes the declarations and definitions needed by the given roots.
func (c *Ctx) Emit(sb *strings.Builder, roots []*Term) {
	seen := map[*Term]bool{}
	var order []*Term
	var visit func(t *Term)
	visit = func(t *Term) {
		if seen[t] {
			return
		}
		seen[t] = true
		for _, a := range t.args {
			visit(a)
		}
		if t.op == "forall" {
			for _, p := range qpats[t] {
				for _, x := range p {
					visit(x)
				}
			}
		}
		order = append(order, t)
	}
	for _, r := range roots {
		visit(r)
	}
	usedFuncs := map[string]bool{}
	for _, t := range order {
		if !t.leaf {
			if _, ok := c.funcs[t.op]; ok {
				usedFuncs[t.op] = true
			}
		} else if t.decl {
			if _, ok := c.funcs[t.op]; ok {
				usedFuncs[t.op] = true
			}
		}
	}
	for _, f := range c.forder {
		if usedFuncs[f] {
			sig := c.funcs[f]
			if strings.HasPrefix(sig, "() ") {
				continue // nullary: declared as const below
			}
			sb.WriteString(fmt.Sprintf("(declare-fun %s %s)\n", f, sig))
		}
	}
	var decls []string
	for _, t := range order {
		if t.leaf && t.decl {
			decls = append(decls, fmt.Sprintf("(declare-const %s %s)\n", t.op, t.sort))
		}
	}
	sort.Strings(decls)
	for _, d := range decls {
		sb.WriteString(d)
	}
	named := map[*Term]bool{}
	for _, t := range order {
		if t.leaf || t.bound {
			continue
		}
		sb.WriteString(fmt.Sprintf("(define-fun %s () %s %s)\n", t.raw, t.sort, c.inlineTop(t, named)))
		named[t] = true
	}
}

func (c *Ctx) inlineTop(t *Term, named map[*Term]bool) string {
	// like inline, but t itself is not replaced by its name
	if t.op == "forall" {
		saved := named[t]
		delete(named, t)
		s := c.inline(t, named)
		if saved {
			named[t] = true
		}
		return s
	}
	var sb strings.Builder
	sb.WriteString("(")
	sb.WriteString(t.op)
	for _, a := range t.args {
		sb.WriteString(" ")
		sb.WriteString(c.inline(a, named))
	}
	sb.WriteString(")")
	return sb.String()
}

func (c *Ctx) Ref(t *Term) string {
	if t.bound && !t.leaf {
		return c.inline(t, nil)
	}
	return t.raw
}
