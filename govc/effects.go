package main

// Whole-program may-write summaries. Every function of the program (repository and its
// dependencies, all loaded from source) gets the set of heap components (type.field prefixes,
// element types, boxes, globals, map types) it may write, directly or through any callee. Dynamic
// calls (interface methods, function values) are resolved with the class-hierarchy call graph
// (x/tools go/callgraph/cha), which is sound for programs without reflection-based calls and unsafe
// pointer arithmetic. The summaries decide what a call to a function WITHOUT a modifies clause
// havocs; they are never used to prove a postcondition.

import (
	"fmt"
	"go/types"
	"os"
	"strings"
	"time"

	"golang.org/x/tools/go/callgraph/cha"
	"golang.org/x/tools/go/callgraph/vta"
	"golang.org/x/tools/go/ssa"
	"golang.org/x/tools/go/ssa/ssautil"
)

type effInfo struct {
	direct  *Effects
	callees map[*ssa.Function]bool
	bits    []uint64 // prefixes (interned), bit 0 = all, bit 1 = allocs
	total   *Effects // materialised on demand
	fixed   bool     // summary comes from a contract (not propagated from the body)
}

func (w *World) internPrefix(p string) int {
	if id, ok := w.prefixID[p]; ok {
		return id
	}
	id := len(w.prefixNames) + 2
	w.prefixID[p] = id
	w.prefixNames = append(w.prefixNames, p)
	return id
}

func setBit(b *[]uint64, i int) {
	for len(*b) <= i/64 {
		*b = append(*b, 0)
	}
	(*b)[i/64] |= 1 << uint(i%64)
}

func (w *World) toBits(e *Effects) []uint64 {
	var b []uint64
	if e.all {
		setBit(&b, 0)
	}
	if e.allocs {
		setBit(&b, 1)
	}
	for p := range e.prefixes {
		setBit(&b, w.internPrefix(p))
		if !e.soft[p] {
			// a write that may reach objects the caller knows (see Effects.soft)
			setBit(&b, w.internPrefix("H|"+p))
		}
	}
	return b
}

func orInto(dst *[]uint64, src []uint64) bool {
	changed := false
	for len(*dst) < len(src) {
		*dst = append(*dst, 0)
	}
	for i, s := range src {
		if n := (*dst)[i] | s; n != (*dst)[i] {
			(*dst)[i] = n
			changed = true
		}
	}
	return changed
}

func (w *World) fromBits(b []uint64) *Effects {
	e := newEffects()
	hard := map[string]bool{}
	for i, word := range b {
		if word == 0 {
			continue
		}
		for k := 0; k < 64; k++ {
			if word&(1<<uint(k)) == 0 {
				continue
			}
			id := i*64 + k
			switch id {
			case 0:
				e.all = true
			case 1:
				e.allocs = true
			default:
				if n := w.prefixNames[id-2]; strings.HasPrefix(n, "H|") {
					hard[n[2:]] = true
				} else {
					e.prefixes[n] = true
				}
			}
		}
	}
	for p := range e.prefixes {
		if !hard[p] {
			e.soft[p] = true
		}
	}
	return e
}

func (w *World) computeEffects() {
	if w.effInfos != nil {
		return
	}
	w.effInfos = map[*ssa.Function]*effInfo{}
	w.siteCallees = map[ssa.CallInstruction][]*ssa.Function{}
	w.prefixID = map[string]int{}
	t0 := time.Now()
	// class-hierarchy graph refined by variable type analysis (sound, much more precise for
	// function values and interface calls)
	cg := vta.CallGraph(ssautil.AllFunctions(w.prog), cha.CallGraph(w.prog))
	for _, fn := range sortedFuncs(cg.Nodes) {
		node := cg.Nodes[fn]
		for _, e := range node.Out {
			if e.Site != nil && e.Callee != nil && e.Callee.Func != nil {
				w.siteCallees[e.Site] = append(w.siteCallees[e.Site], e.Callee.Func)
			}
		}
	}
	for _, cs := range w.siteCallees {
		sortFuncs(cs) // (in place: the order of a call site's candidates does not depend on the call graph's maps)
	}
	all := ssautil.AllFunctions(w.prog)
	for fn := range all {
		w.effInfos[fn] = w.directEffects(fn)
	}
	// fixpoint over bit sets
	rev := map[*ssa.Function][]*ssa.Function{}
	for fn, info := range w.effInfos {
		for c := range info.callees {
			rev[c] = append(rev[c], fn)
		}
	}
	work := make([]*ssa.Function, 0, len(w.effInfos))
	inWork := map[*ssa.Function]bool{}
	for fn := range w.effInfos {
		work = append(work, fn)
		inWork[fn] = true
	}
	for len(work) > 0 {
		fn := work[len(work)-1]
		work = work[:len(work)-1]
		inWork[fn] = false
		info := w.effInfos[fn]
		if info.fixed {
			continue
		}
		changed := false
		for c := range info.callees {
			if ci := w.effInfos[c]; ci != nil && orInto(&info.bits, ci.bits) {
				changed = true
			}
		}
		if changed {
			for _, caller := range rev[fn] {
				if !inWork[caller] {
					inWork[caller] = true
					work = append(work, caller)
				}
			}
		}
	}
	if os.Getenv("GOVC_DEBUG") != "" {
		fmt.Fprintf(os.Stderr, "computeEffects: %d functions, %d components, %.1fs\n", len(w.effInfos), len(w.prefixNames), time.Since(t0).Seconds())
	}
}

func (w *World) directEffects(fn *ssa.Function) *effInfo {
	info := &effInfo{direct: newEffects(), callees: map[*ssa.Function]bool{}}
	fc := w.contracts[funcKey(fn)]
	if fc != nil && (fc.Pure || (fc.ModifiesGiven && (fc.Trusted || len(fn.Blocks) == 0 || !w.inRepo(fn)))) {
		if !fc.Pure {
			w.modifiesEffects(fc, info.direct)
		}
		info.direct.allocs = true
		info.fixed = true
		info.bits = w.toBits(info.direct)
		return info
	}
	if len(fn.Blocks) == 0 {
		// no Go body (assembly, linkname): assumed to write only what its pointer/slice parameters address
		sig := fn.Signature
		add := func(t types.Type) {
			switch u := t.Underlying().(type) {
			case *types.Pointer:
				if named, _, ok := isNamedStruct(u.Elem()); ok {
					info.direct.prefixes["F:"+typeKey(named)] = true
				} else {
					info.direct.prefixes["B:"+typeKey(u.Elem())] = true
				}
			case *types.Slice:
				info.direct.prefixes["E:"+typeKey(u.Elem())] = true
			}
		}
		if sig.Recv() != nil {
			add(sig.Recv().Type())
		}
		for i := 0; i < sig.Params().Len(); i++ {
			add(sig.Params().At(i).Type())
		}
		info.direct.allocs = true
		info.fixed = true
		info.bits = w.toBits(info.direct)
		return info
	}
	for _, b := range fn.Blocks {
		for _, in := range b.Instrs {
			switch i := in.(type) {
			case *ssa.Call:
				w.calleesOf(fn, i, &i.Call, info)
			case *ssa.Defer:
				w.calleesOf(fn, i, &i.Call, info)
			case *ssa.Go:
				w.calleesOf(fn, i, &i.Call, info)
			default:
				w.instrEffects(in, info.direct, nil, nil)
			}
		}
	}
	info.bits = w.toBits(info.direct)
	return info
}

func (w *World) calleesOf(fn *ssa.Function, site ssa.CallInstruction, call *ssa.CallCommon, info *effInfo) {
	if !call.IsInvoke() {
		switch f := call.Value.(type) {
		case *ssa.Builtin:
			info.direct.add(w.builtinEffects(f, call))
			return
		case *ssa.Function:
			info.callees[f] = true
			return
		case *ssa.MakeClosure:
			info.callees[f.Fn.(*ssa.Function)] = true
			return
		}
		// a call through a parameter declared as callback: effects supplied at the call sites
		if p := calleeParam(call); p != nil {
			if fc := w.contracts[funcKey(p.Parent())]; fc != nil {
				if _, ok := fc.Callbacks[p.Name()]; ok {
					info.direct.allocs = true
					return
				}
			}
		}
	}
	cs := w.siteCallees[site]
	if len(cs) == 0 {
		// unresolved dynamic call (no candidate in the program): nothing to run
		info.direct.allocs = true
		return
	}
	for _, c := range cs {
		info.callees[c] = true
	}
}

func (w *World) builtinEffects(f *ssa.Builtin, call *ssa.CallCommon) *Effects {
	eff := newEffects()
	switch f.Name() {
	case "append":
		eff.allocs = true // functional model: the result lives in a fresh backing array
	case "copy":
		if sl, ok := call.Args[0].Type().Underlying().(*types.Slice); ok {
			eff.prefixes["E:"+typeKey(sl.Elem())] = true
		}
	case "delete":
		eff.prefixes["M:"+typeKey(call.Args[0].Type())] = true
	case "clear":
		switch u := call.Args[0].Type().Underlying().(type) {
		case *types.Map:
			eff.prefixes["M:"+typeKey(u)] = true
		case *types.Slice:
			eff.prefixes["E:"+typeKey(u.Elem())] = true
		}
	}
	return eff
}

// funcEffects: the transitive may-write summary of fn.
func (w *World) funcEffects(fn *ssa.Function) *Effects {
	w.computeEffects()
	info, ok := w.effInfos[fn]
	if !ok {
		// functions created after the analysis (synthetic wrappers): analyse on demand
		info = w.directEffects(fn)
		w.effInfos[fn] = info
		if !info.fixed {
			for c := range info.callees {
				if c != fn {
					if ci := w.effInfos[c]; ci != nil {
						orInto(&info.bits, ci.bits)
					} else {
						orInto(&info.bits, w.toBits(w.funcEffects(c)))
					}
				}
			}
		}
	}
	if info.total == nil {
		info.total = w.fromBits(info.bits)
	}
	return info.total
}
