package main

import (
	"encoding/json"
	"fmt"
	"os"
	"path/filepath"
	"sort"
	"strconv"
	"strings"
)

type KnownFinding struct {
	Property   string `json:"property"`
	Obligation string `json:"obligation"` // obligation name prefix (function/kind), e.g. "(*lexer.Lexer).unread/ensures"
	Clause     string `json:"clause,omitempty"`
	What       string `json:"what"`
	Witness    string `json:"witness,omitempty"`
	Status     string `json:"status"` // known | fixed
	Commit     string `json:"commit,omitempty"`
}

type KnownFile struct {
	Findings []KnownFinding `json:"findings"`
}

func loadKnown(path string) []KnownFinding {
	data, err := os.ReadFile(path)
	if err != nil {
		return nil
	}
	var kf KnownFile
	if err := json.Unmarshal(data, &kf); err != nil {
		fmt.Fprintln(os.Stderr, "CHECK-ERROR: known_findings.json:", err)
		os.Exit(2)
	}
	return kf.Findings
}

func obBase(name string) string {
	// strip the trailing ordinal
	if i := strings.LastIndex(name, "/"); i >= 0 {
		return name[:i]
	}
	return name
}

func matchKnown(known []KnownFinding, prop string, ob *Obligation) *KnownFinding {
	for i := range known {
		k := &known[i]
		if k.Status != "known" || k.Property != prop {
			continue
		}
		if k.Obligation != obBase(ob.Name) && k.Obligation != ob.Name {
			continue
		}
		if k.Clause != "" && k.Clause != ob.Clause {
			continue
		}
		return k
	}
	return nil
}

type evidence struct {
	PropertyID  string                 `json:"property_id"`
	Tier        string                 `json:"tier"`
	Seed        int                    `json:"seed"`
	Level       string                 `json:"level"`
	Coverage    map[string]interface{} `json:"coverage"`
	Assumptions []string               `json:"assumptions"`
	WallS       float64                `json:"wall_s"`
	Violations  int                    `json:"violations"`
}

func report(w *World, cfg runConfig, units []*UnitResult, obls []*Obligation, bounded []boundedResult, loadSecs, genSecs, wall float64) int {
	known := loadKnown("/verif/known_findings.json")
	exit := 0
	var checkErrors []string
	for _, u := range units {
		if u.Err != "" {
			fmt.Printf("CHECK-ERROR %s: %s\n", u.Name, u.Err)
			checkErrors = append(checkErrors, u.Name+": "+u.Err)
			if exit == 0 {
				exit = 2
			}
			// A contract that no longer fits the code it is written for (a field, local or function it
			// names is gone, or a sweep finds nothing to sweep) leaves every obligation of that unit
			// undischarged: the proof that held on the unchanged tree does not exist for this tree.
			// That is reported as a violation of the property (without a failing input), not only as a
			// tool error.
			if strings.Contains(u.Err, "no field ") || strings.Contains(u.Err, "unknown identifier") || strings.Contains(u.Err, "does not exist") ||
				strings.Contains(u.Err, "(vacuous)") || strings.Contains(u.Err, "not found") {
				os.MkdirAll(filepath.Join("/verif/out", "replay", cfg.prop), 0o755)
				path := filepath.Join("/verif/out", "replay", cfg.prop, sanitize(u.Name)+"_contract.txt")
				os.WriteFile(path, []byte(fmt.Sprintf("obligation: %s/contract-applies\nThe contract of %s no longer fits the code: %s\nEvery obligation generated from it on the unchanged tree is undischarged on this tree.\nno-failing-input-found\n", u.Name, u.Name, u.Err)), 0o644)
				fmt.Printf("  FAIL %s/contract-applies: the contract no longer fits the code: %s\n", u.Name, u.Err)
				fmt.Printf("VIOLATION property=%s replay=%s no-failing-input-found\n", cfg.prop, path)
				exit = 1
			}
		}
		if cfg.verbose {
			for _, l := range u.Loops {
				fmt.Printf("  %s: %s\n", u.Name, l)
			}
			for _, l := range u.Ledger {
				fmt.Printf("  assumption: %s\n", l)
			}
		}
	}
	replayDir := filepath.Join("/verif/out", "replay", cfg.prop)
	os.MkdirAll(replayDir, 0o755)
	n, ok, covers, coversOK := 0, 0, 0, 0
	byBackend := map[string]map[string]float64{}
	solverSecs := 0.0
	violations := 0
	var knownLines []string
	var coverUndecided []string
	var knownObls []string
	var samples []map[string]interface{}
	var slow []string
	for _, ob := range obls {
		solverSecs += ob.Seconds
		bk := ob.Solver
		if bk == "" {
			bk = "none"
		}
		if byBackend[bk] == nil {
			byBackend[bk] = map[string]float64{}
		}
		byBackend[bk]["count"]++
		byBackend[bk]["seconds"] += ob.Seconds
		if ob.Cover {
			covers++
			if ob.Verdict == "sat" {
				coversOK++
				continue
			}
			if ob.Verdict != "unsat" {
				// undecided reachability query: not evidence of vacuity, reported only
				fmt.Printf("note: cover %s undecided (%s): %s\n", ob.Name, ob.Verdict, ob.Desc)
				coverUndecided = append(coverUndecided, ob.Name)
				continue
			}
			// a cover that is unsatisfiable means a vacuous contract: a run error, not a violation
			fmt.Printf("CHECK-ERROR vacuity: %s is %s (%s) [%s]\n", ob.Name, ob.Verdict, ob.Desc, ob.File)
			checkErrors = append(checkErrors, "vacuity: "+ob.Name)
			if exit == 0 {
				exit = 2
			}
			continue
		}
		n++
		if ob.Verdict == "unsat" {
			ok++
			if cfg.verbose {
				fmt.Printf("  ok   %-62s %-14s %.2fs  %s\n", ob.Name, ob.Solver, ob.Seconds, ob.Desc)
			}
			if ob.Seconds > 2.0 {
				slow = append(slow, fmt.Sprintf("%s %.1fs", ob.Name, ob.Seconds))
			}
			if len(samples) < 6 && (ob.Kind == "ensures" || ob.Kind == "inv-keep" || ob.Kind == "lemma" || ob.Kind == "bounds" || ob.Kind == "slice") {
				samples = append(samples, map[string]interface{}{"obligation": ob.Name, "kind": ob.Kind, "at": ob.Pos, "what": ob.Desc, "verdict": ob.Verdict, "solver": ob.Solver, "seconds": round3(ob.Seconds), "smt_file": ob.File})
			}
			continue
		}
		// not discharged
		if k := matchKnown(known, cfg.prop, ob); k != nil {
			line := fmt.Sprintf("KNOWN-FINDING: property=%s %s: %s", cfg.prop, obBase(ob.Name), k.What)
			dup := false
			for _, l := range knownLines {
				if l == line {
					dup = true
				}
			}
			if !dup {
				knownLines = append(knownLines, line)
				fmt.Println(line)
			}
			knownObls = append(knownObls, ob.Name+" ("+ob.Verdict+")")
			continue
		}
		violations++
		rp := writeReplay(w, cfg, replayDir, ob)
		suffix := ""
		if !rp.confirmed {
			suffix = " no-failing-input-found"
		}
		verdict := ob.Verdict
		if verdict == "sat" && ob.SatMode == "ground" {
			// a model of the ground-instantiated query is a candidate only (instantiation is incomplete)
			verdict = "not proved (full query undecided; candidate model of the ground instances)"
		}
		fmt.Printf("  FAIL %s: %s by %s in %.2fs at %s: %s\n", ob.Name, verdict, ob.Solver, ob.Seconds, ob.Pos, ob.Desc)
		fmt.Printf("VIOLATION property=%s replay=%s%s\n", cfg.prop, rp.path, suffix)
		if exit == 0 {
			exit = 1
		}
	}
	for _, b := range bounded {
		if b.Err != "" {
			fmt.Printf("CHECK-ERROR bounded %s: %s\n", b.Name, b.Err)
			if exit == 0 {
				exit = 2
			}
			continue
		}
		fmt.Printf("  bounded stand-in %s (not counted as proved): %d cases, %d differ; bound: %s; %.1fs\n", b.Name, b.Cases, len(b.Failures), b.Bound, b.Seconds)
		for _, f := range b.Failures {
			kf := false
			for _, k := range known {
				if k.Status == "known" && k.Property == cfg.prop && k.Obligation == "bounded/"+b.Name && (k.Witness == "" || strings.Contains(f, k.Witness)) {
					line := fmt.Sprintf("KNOWN-FINDING: property=%s bounded/%s: %s", cfg.prop, b.Name, k.What)
					if !containsStr(knownLines, line) {
						knownLines = append(knownLines, line)
						fmt.Println(line)
					}
					kf = true
				}
			}
			if kf {
				continue
			}
			violations++
			path := filepath.Join(replayDir, sanitize("bounded_"+b.Name)+".txt")
			os.WriteFile(path, []byte("bounded stand-in "+b.Name+" failed on real code:\n"+f+"\n"), 0o644)
			fmt.Printf("  FAIL bounded/%s: %s\n", b.Name, f)
			fmt.Printf("VIOLATION property=%s replay=%s\n", cfg.prop, path)
			if exit == 0 {
				exit = 1
			}
		}
	}
	fmt.Printf("%s: %d/%d obligations discharged, %d/%d covers satisfiable, %d known findings; load %.1fs vcgen %.1fs smt-text %.1fs wall %.1fs\n",
		cfg.prop, ok, n, coversOK, covers, len(knownLines), loadSecs, genSecs, genSeconds, wall)
	if os.Getenv("GOVC_DEBUG") != "" {
		fmt.Printf("smt-text breakdown: hypothesis selection %.1fs, instantiation and printing %.1fs\n", tRel, tRest)
	}
	if n == 0 && exit == 0 {
		fmt.Println("CHECK-ERROR: no obligations generated for", cfg.prop)
		exit = 2
	}

	// evidence
	var fnames []string
	assume := map[string]bool{}
	for _, u := range units {
		fnames = append(fnames, u.Name)
		for _, l := range u.Ledger {
			assume[l] = true
		}
	}
	sort.Strings(fnames)
	var assumptions []string
	for a := range assume {
		assumptions = append(assumptions, a)
	}
	sort.Strings(assumptions)
	assumptions = append([]string{
		"trusted base: golang.org/x/tools go/ssa builder (NaiveForm), govc's SSA-to-SMT semantics, solvers z3 4.8.12 / z3 5.1.0 / cvc5 1.0.3",
		"termination is not verified (partial correctness); recursion assumes the function's own contract",
		"machine integers: Go int treated as mathematical integer with a no-overflow obligation at every signed + - * in functions under contract (bv64 functions: exact 64-bit vectors)",
		"slice/string lengths assumed below 2^48",
		"axioms in /verif/spec/*.vspec (definitions of spec functions; induction principle for the lemmas marked 'by induction')",
	}, assumptions...)
	bk := map[string]interface{}{}
	for k, v := range byBackend {
		bk[k] = map[string]interface{}{"count": int(v["count"]), "seconds": round3(v["seconds"])}
	}
	var boundedEv []map[string]interface{}
	for _, b := range bounded {
		boundedEv = append(boundedEv, map[string]interface{}{"name": b.Name, "bound": b.Bound, "cases": b.Cases, "failures": len(b.Failures), "label": "bounded stand-in: not counted as proved"})
	}
	if len(samples) == 0 {
		for _, ob := range obls {
			if len(samples) < 3 {
				samples = append(samples, map[string]interface{}{"obligation": ob.Name, "kind": ob.Kind, "what": ob.Desc, "verdict": ob.Verdict})
			}
		}
	}
	cov := map[string]interface{}{
		"obligations":              n - len(knownObls), // obligations claimed: those of listed known findings are reported separately
		"known_finding_obligations": knownObls,
		"discharged":               ok,
		"checker_cmd":              "bin/check " + cfg.prop + " --tier " + cfg.tier + "  (govc: go/ssa -> weakest-precondition style VCs -> z3-new | z3 | cvc5)",
		"trusted_base":             []string{"x/tools go/ssa v0.29.0", "govc VC generator (/verif/govc)", "z3 4.8.12", "z3 5.1.0", "cvc5 1.0.3", "/verif/spec/*.vspec axioms"},
		"functions_under_contract": fnames,
		"covers":                   map[string]interface{}{"total": covers, "satisfiable": coversOK, "undecided": coverUndecided},
		"by_backend":               bk,
		"solver_seconds":           round3(solverSecs),
		"solver_budget":            budgetText(cfg.timeoutMs),
		"samples":                  samples,
		"known_findings":           knownLines,
		"bounded":                  boundedEv,
		"slow_obligations":         slow,
		"check_errors":             checkErrors,
	}
	ev := evidence{PropertyID: cfg.prop, Tier: cfg.tier, Seed: cfg.seed, Level: "proof", Coverage: cov, Assumptions: assumptions, WallS: round3(wall), Violations: violations}
	data, _ := json.MarshalIndent(ev, "", " ")
	if repoRoot != "/repo" {
		// a run against a scratch copy (tools/selftest.sh): never evidence
		return exit
	}
	os.MkdirAll("/verif/evidence", 0o755)
	if err := os.WriteFile(filepath.Join("/verif/evidence", cfg.prop+".json"), data, 0o644); err != nil {
		fmt.Println("CHECK-ERROR: cannot write evidence:", err)
		return 2
	}
	return exit
}

// budgetText: what limits a solver run in this check (evidence).
func budgetText(nominalMs int) string {
	first := nominalMs
	if first > 3000 {
		first = 3000
	}
	s := fmt.Sprintf("resource units, not seconds (the verdict is the same on every machine and under every load; query texts are generated deterministically): first stage z3-new rlimit=%d on the full and the ground-instantiated query; then per case of the last join; then a race of",
		solvers[0].rate*first)
	for _, sv := range solvers {
		s += fmt.Sprintf(" %s %d", sv.name, sv.rate*nominalMs)
	}
	s += fmt.Sprintf("; undecided obligations (at most 12) once more with four times these; wall-clock safety net %d s per solver run (4x budget: %d s); vacuity probes (covers) keep wall-clock limits of %d/%d ms", wallCapMs(nominalMs)/1000, wallCapMs(4*nominalMs)/1000, first, nominalMs)
	if p := os.Getenv("GOVC_BUDGET_PCT"); p != "" {
		s += "; GOVC_BUDGET_PCT=" + p + " (development run: budgets scaled)"
	}
	return s
}

func containsStr(s []string, x string) bool {
	for _, y := range s {
		if y == x {
			return true
		}
	}
	return false
}

func round3(f float64) float64 {
	v, _ := strconv.ParseFloat(fmt.Sprintf("%.3f", f), 64)
	return v
}

var replaysDone int

type replayInfo struct {
	path      string
	confirmed bool
}

// writeReplay records a failed obligation: name, clause, solver output, and (when the
// replay generator can build one) a Go test replaying the model on the real code.
func writeReplay(w *World, cfg runConfig, dir string, ob *Obligation) replayInfo {
	path := filepath.Join(dir, sanitize(ob.Name)+".txt")
	var sb strings.Builder
	fmt.Fprintf(&sb, "property: %s\nobligation: %s\nkind: %s\nfunction: %s\nat: %s\nwhat: %s\nclause: %s\nverdict: %s (solver %s, %.2fs)\nsmt query: %s\n",
		cfg.prop, ob.Name, ob.Kind, ob.Func, ob.Pos, ob.Desc, ob.Clause, ob.Verdict, ob.Solver, ob.Seconds, ob.File)
	confirmed := false
	if ob.Verdict == "sat" && ob.SatMode == "ground" {
		sb.WriteString("note: the model is of the ground-instantiated query only; the full query was not decided within its budget. Unless the replay below confirms it on the real code, read this as not proved, not as refuted.\n")
	}
	if ob.Verdict == "sat" && replaysDone >= 4 {
		sb.WriteString("\n--- replay on the real code ---\nno replay: the replay budget of this run (4 obligations) is used up; run the check with --only on this function to replay this one\n")
	} else if ob.Verdict == "sat" {
		replaysDone++
		rr := tryReplay(w, cfg, ob)
		sb.WriteString("\n--- replay on the real code ---\n")
		sb.WriteString(rr.log)
		confirmed = rr.confirmed
	} else {
		sb.WriteString("\nno model: the solver did not refute the obligation, it failed to prove it (unknown/timeout); it was discharged on the unchanged tree.\n")
	}
	sb.WriteString("\n--- solver output ---\n")
	m := ob.Model
	if len(m) > 20000 {
		m = m[:20000] + "\n…(truncated)\n"
	}
	sb.WriteString(m)
	os.WriteFile(path, []byte(sb.String()), 0o644)
	return replayInfo{path, confirmed}
}
