package main

import (
	"fmt"
	"go/token"
	"go/types"
	"os"
	"path/filepath"
	"sort"
	"strings"

	"golang.org/x/tools/go/packages"
	"golang.org/x/tools/go/ssa"
	"golang.org/x/tools/go/ssa/ssautil"
)

type World struct {
	fset      *token.FileSet
	errGlobals map[*ssa.Global]bool
	pkgs      []*packages.Package
	prog      *ssa.Program
	spkgs     []*ssa.Package
	funcs     map[string]*ssa.Function // by funcKey
	cs        *Contracts
	contracts map[string]*FuncContract
	effCache  map[*ssa.Function]*Effects
	effInfos    map[*ssa.Function]*effInfo
	siteCallees map[ssa.CallInstruction][]*ssa.Function
	prefixID    map[string]int
	prefixNames []string
	repo      string
	specDir   string
}

func loadWorld(repo, specDir string) (*World, error) {
	cfg := &packages.Config{Mode: packages.LoadAllSyntax, Dir: repo, BuildFlags: []string{"-tags=verif"},
		Env: append(os.Environ(), "GOFLAGS=-mod=mod", "GOPROXY=off", "GOSUMDB=off", "GOTOOLCHAIN=local")}
	pkgs, err := packages.Load(cfg, "./...")
	if err != nil {
		return nil, err
	}
	nerr := 0
	packages.Visit(pkgs, nil, func(p *packages.Package) {
		for _, e := range p.Errors {
			fmt.Fprintln(os.Stderr, "load error:", e)
			nerr++
		}
	})
	if nerr > 0 {
		return nil, fmt.Errorf("%d package load errors", nerr)
	}
	prog, spkgs := ssautil.AllPackages(pkgs, ssa.NaiveForm|ssa.GlobalDebug)
	prog.Build()
	w := &World{fset: prog.Fset, pkgs: pkgs, prog: prog, spkgs: spkgs, funcs: map[string]*ssa.Function{},
		cs: newContracts(), effCache: map[*ssa.Function]*Effects{}, repo: repo, specDir: specDir}
	// include dependencies so that external functions can be named in contracts
	var all []*packages.Package
	packages.Visit(pkgs, nil, func(p *packages.Package) { all = append(all, p) })
	w.pkgs = all
	for fn := range ssautil.AllFunctions(prog) {
		w.funcs[funcKey(fn)] = fn
	}
	// contracts: spec library, then per-package comment files
	if err := w.cs.loadDir(specDir); err != nil {
		return nil, err
	}
	for _, p := range pkgs {
		if !strings.HasPrefix(p.PkgPath, "github.com/benhoyt/goawk") {
			continue
		}
		for _, f := range p.GoFiles {
			if filepath.Base(f) == "zz_contracts_verif.go" {
				if err := w.cs.loadFile(f, p.Name, true); err != nil {
					return nil, err
				}
			}
		}
	}
	w.contracts = w.cs.funcs
	return w, nil
}

func (w *World) lookupFunc(key string) *ssa.Function {
	if f, ok := w.funcs[key]; ok {
		return f
	}
	return nil
}

// resolveType parses a small type syntax: basic names, []T, *T, pkg.Name.
func (w *World) resolveType(s string, pkg *types.Package) types.Type {
	s = strings.TrimSpace(s)
	switch {
	case strings.HasPrefix(s, "[]"):
		return types.NewSlice(w.resolveType(s[2:], pkg))
	case strings.HasPrefix(s, "*"):
		return types.NewPointer(w.resolveType(s[1:], pkg))
	}
	if obj := types.Universe.Lookup(s); obj != nil {
		if tn, ok := obj.(*types.TypeName); ok {
			return tn.Type()
		}
	}
	if i := strings.Index(s, "."); i >= 0 {
		pn, tn := s[:i], s[i+1:]
		for _, p := range w.pkgs {
			if p.Types != nil && p.Types.Name() == pn {
				if obj := p.Types.Scope().Lookup(tn); obj != nil {
					if t, ok := obj.(*types.TypeName); ok {
						return t.Type()
					}
				}
			}
		}
	} else if pkg != nil {
		if obj := pkg.Scope().Lookup(s); obj != nil {
			if t, ok := obj.(*types.TypeName); ok {
				return t.Type()
			}
		}
	}
	// unqualified name: search repo packages
	for _, p := range w.pkgs {
		if p.Types != nil && strings.HasPrefix(p.PkgPath, "github.com/benhoyt/goawk") {
			if obj := p.Types.Scope().Lookup(s); obj != nil {
				if t, ok := obj.(*types.TypeName); ok {
					return t.Type()
				}
			}
		}
	}
	panic(unsupported("cannot resolve type %q", s))
}

// contractForMethod finds the contract of an interface method: "iface <pkg.Type>.<Method>".
func (w *World) contractForMethod(call *ssa.CallCommon) *FuncContract {
	key := "iface " + typeKey(call.Value.Type()) + "." + call.Method.Name()
	return w.contracts[key]
}

// staticType computes the static type of a (modifies-target) expression of a contract.
func (w *World) staticType(fc *FuncContract, e *CE) types.Type {
	fn := w.funcs[fc.Name]
	switch e.Op {
	case "paren":
		return w.staticType(fc, e.Args[0])
	case "ident":
		if fn != nil {
			for _, p := range fn.Params {
				if p.Name() == e.Name {
					return p.Type()
				}
			}
			if len(fn.Params) == 0 {
				sig := fn.Signature
				names := fc.ParamNames
				if sig.Recv() != nil && (e.Name == "recv" || e.Name == fc.RecvName) {
					return sig.Recv().Type()
				}
				for k := 0; k < sig.Params().Len(); k++ {
					n := sig.Params().At(k).Name()
					if k < len(names) {
						n = names[k]
					}
					if n == e.Name {
						return sig.Params().At(k).Type()
					}
				}
			}
		}
	case "sel":
		bt := w.staticType(fc, e.Args[0])
		if bt == nil {
			return nil
		}
		if p, ok := bt.Underlying().(*types.Pointer); ok {
			bt = p.Elem()
		}
		var pkg *types.Package
		if n, ok := bt.(*types.Named); ok {
			pkg = n.Obj().Pkg()
		}
		obj, _, _ := types.LookupFieldOrMethod(bt, true, pkg, e.Name)
		if v, ok := obj.(*types.Var); ok {
			return v.Type()
		}
	case "unary":
		if e.Name == "*" {
			bt := w.staticType(fc, e.Args[0])
			if bt != nil {
				if p, ok := bt.Underlying().(*types.Pointer); ok {
					return p.Elem()
				}
			}
		}
	case "index":
		bt := w.staticType(fc, e.Args[0])
		if bt != nil {
			if s, ok := bt.Underlying().(*types.Slice); ok {
				return s.Elem()
			}
		}
	}
	return nil
}

// targetPrefix: heap key prefix written by a modifies target (type level).
func (w *World) targetPrefix(fc *FuncContract, m *CE) string {
	switch m.Op {
	case "paren":
		return w.targetPrefix(fc, m.Args[0])
	case "allelems":
		t := w.staticType(fc, m.Args[0])
		if t == nil {
			return ""
		}
		switch u := t.Underlying().(type) {
		case *types.Slice:
			return "E:" + typeKey(u.Elem())
		case *types.Map:
			return "M:" + typeKey(u)
		}
	case "call":
		if m.Name == "global" {
			return "G:" + ceName(m.Args[0])
		}
		if m.Name == "prefix" {
			return m.Args[0].Str
		}
	case "sel":
		bt := w.staticType(fc, m.Args[0])
		if bt == nil {
			return ""
		}
		if p, ok := bt.Underlying().(*types.Pointer); ok {
			if named, _, ok := isNamedStruct(p.Elem()); ok {
				return "F:" + typeKey(named) + "." + m.Name
			}
			return ""
		}
		// field of nested struct l-value
		if bp := w.targetPrefix(fc, m.Args[0]); bp != "" {
			return bp + "." + m.Name
		}
	case "unary":
		if m.Name == "*" {
			t := w.staticType(fc, m.Args[0])
			if t == nil {
				return ""
			}
			if p, ok := t.Underlying().(*types.Pointer); ok {
				if named, _, ok := isNamedStruct(p.Elem()); ok {
					return "F:" + typeKey(named)
				}
				return "B:" + typeKey(p.Elem())
			}
		}
	case "index":
		t := w.staticType(fc, m.Args[0])
		if t != nil {
			if s, ok := t.Underlying().(*types.Slice); ok {
				return "E:" + typeKey(s.Elem())
			}
		}
	}
	return ""
}

// funcsForProp lists the contracts that serve a property (sorted).
func (w *World) funcsForProp(prop string) []*FuncContract {
	var out []*FuncContract
	for _, fc := range w.contracts {
		if fc.Trusted || strings.HasPrefix(fc.Name, "iface ") || strings.HasPrefix(fc.Name, "field ") {
			continue
		}
		if prop == "" || contains(fc.Props, prop) {
			out = append(out, fc)
			continue
		}
	}
	sort.Slice(out, func(i, j int) bool { return out[i].Name < out[j].Name })
	return out
}

func contains(s []string, x string) bool {
	for _, y := range s {
		if y == x {
			return true
		}
	}
	return false
}
