package main

import (
	"fmt"
	"go/token"
	"go/types"
	"math/big"

	"golang.org/x/tools/go/ssa"
)

func deref(t types.Type) types.Type {
	if p, ok := t.Underlying().(*types.Pointer); ok {
		return p.Elem()
	}
	panic(unsupported("deref of %s", t))
}

func (x *Exec) step(st *State, in ssa.Instruction) {
	c := x.c
	switch i := in.(type) {
	case *ssa.DebugRef:
		return
	case *ssa.Alloc:
		et := deref(i.Type())
		if !i.Heap {
			st.cells[i] = x.zeroValue(et)
			x.regs[i] = PtrV{Kind: PLocal, Cell: i}
			return
		}
		r := x.allocRef(st)
		p := PtrV{Kind: PRef, Base: r}
		x.regs[i] = p
		x.storePtr(st, p, et, x.zeroValue(et))
	case *ssa.FieldAddr:
		base := x.val(st, i.X)
		st0 := deref(i.X.Type())
		p, ok := base.(PtrV)
		if !ok {
			panic(unsupported("FieldAddr on %T", base))
		}
		switch p.Kind {
		case PLocal, PGlobal:
			np := p
			np.Path = append(append([]int{}, p.Path...), i.Field)
			x.regs[i] = np
		case PField:
			np := p
			np.Path = append(append([]int{}, p.Path...), i.Field)
			x.regs[i] = np
		case PElem:
			np := p
			np.Path = append(append([]int{}, p.Path...), i.Field)
			x.regs[i] = np
		case PRef:
			named, _, ok := isNamedStruct(st0)
			if !ok {
				panic(unsupported("FieldAddr on pointer to anonymous struct %s", st0))
			}
			x.oblige(st, "nilptr", fmt.Sprintf("nil dereference of %s (field %s)", i.X.Name(), fieldName(st0, i.Field)), i.Pos(), c.Neq(p.Base, c.Int(0)), nil, "")
			x.regs[i] = PtrV{Kind: PField, Base: p.Base, Struct: named, Path: []int{i.Field}}
		}
	case *ssa.Field:
		s := x.val(st, i.X).(StructV)
		x.regs[i] = s.F[i.Field]
	case *ssa.IndexAddr:
		x.indexAddr(st, i)
	case *ssa.Index:
		x.index(st, i)
	case *ssa.UnOp:
		x.unop(st, i)
	case *ssa.Store:
		if ap, isArr := x.val(st, i.Addr).(ArrElemPtr); isArr {
			et := deref(i.Addr.Type())
			arr := x.loadPtr(st, ap.Arr, ap.At).(ArrayV)
			na := ArrayV{L: map[string]*Term{}, N: arr.N}
			ts := x.flatten(x.val(st, i.Val), et)
			for k, l := range leavesOf(et) {
				na.L[l.suffix] = c.Store(arr.L[l.suffix], ap.Idx, ts[k])
			}
			x.storePtr(st, ap.Arr, ap.At, na)
			return
		}
		p, ok := x.val(st, i.Addr).(PtrV)
		if !ok {
			panic(unsupported("store through %T", x.val(st, i.Addr)))
		}
		v := x.val(st, i.Val)
		x.storePtr(st, p, deref(i.Addr.Type()), x.coerce(v, i.Val.Type(), deref(i.Addr.Type())))
		// intermediate assertions "assert after-store T.f <expr>": proved right after every assignment to
		// the field in the function under verification, then available as a fact on that path
		if fa, isF := i.Addr.(*ssa.FieldAddr); isF && x.fc != nil && len(x.fc.AssertAfterStore) > 0 && i.Parent() == x.fn {
			st0 := deref(fa.X.Type())
			for _, cl := range x.fc.AssertAfterStore[typeKey(st0)+"."+fieldName(st0, fa.Field)] {
				env := x.envFor(x.fn, st, x.entry, nil)
				env.locals = true
				env.pos = i.Pos()
				t := x.evalBool(cl.Expr, env)
				x.oblige(st, "assert", "after the assignment: "+cl.Text, i.Pos(), t, cl.Props, cl.Text)
			}
		}
	case *ssa.BinOp:
		x.regs[i] = x.binop(st, i.Op, x.val(st, i.X), x.val(st, i.Y), i.X.Type(), i.Y.Type(), i.Type(), i.Pos(), true)
	case *ssa.Phi:
		// only short-circuit && / || phis exist in naive form: pick by predecessor reach
		// handled through edge-conditioned merge: build ite over incoming edges
		x.phi(st, i)
	case *ssa.Call:
		x.call(st, i)
	case *ssa.Slice:
		x.slice(st, i)
	case *ssa.Convert:
		x.regs[i] = x.convert(st, x.val(st, i.X), i.X.Type(), i.Type(), i.Pos())
	case *ssa.ChangeType:
		x.regs[i] = x.val(st, i.X)
	case *ssa.ChangeInterface:
		x.regs[i] = x.val(st, i.X)
	case *ssa.MakeInterface:
		x.regs[i] = x.makeInterface(st, x.val(st, i.X), i.X.Type())
	case *ssa.TypeAssert:
		x.typeAssert(st, i)
	case *ssa.Extract:
		x.regs[i] = x.val(st, i.Tuple).(TupleV).E[i.Index]
	case *ssa.MakeSlice:
		x.makeSlice(st, i)
	case *ssa.MakeClosure:
		var binds []Value
		for _, b := range i.Bindings {
			bv := x.val(st, b)
			if p, ok := bv.(PtrV); ok {
				_ = p
			}
			binds = append(binds, bv)
		}
		x.regs[i] = FuncV{Fn: i.Fn.(*ssa.Function), Binds: binds}
	case *ssa.MakeMap:
		r := x.allocRef(st)
		x.regs[i] = Sc{r}
		x.mapInit(st, r, i.Type())
	case *ssa.Lookup:
		x.lookup(st, i)
	case *ssa.MapUpdate:
		x.mapUpdate(st, i)
	case *ssa.Range:
		x.rangeStart(st, i)
	case *ssa.Next:
		x.rangeNext(st, i)
	case *ssa.RunDefers:
		x.runDefers(st, i)
	case *ssa.Defer:
		x.deferCall(st, i)
	case *ssa.MakeChan:
		r := x.allocRef(st)
		x.regs[i] = Sc{r}
	case *ssa.Select:
		// non-blocking select with default, used by checkContextNow: result index is nondeterministic
		x.selectInstr(st, i)
	default:
		panic(unsupported("instruction %T: %s", in, in))
	}
}

func fieldName(t types.Type, i int) string {
	if s, ok := t.Underlying().(*types.Struct); ok {
		return s.Field(i).Name()
	}
	return fmt.Sprint(i)
}

// coerce adapts a value to the destination type where representation differs
// (only interface <- interface; everything else is identical).
func (x *Exec) coerce(v Value, from, to types.Type) Value { return v }

func (x *Exec) phi(st *State, i *ssa.Phi) {
	// In naive form phis come from short-circuit evaluation. Each incoming edge
	// value is available in regs (constants or computed in the pred). We need
	// the edge reach conditions: recorded by edge() in x.phiConds.
	b := i.Block()
	var res Value
	for k := len(i.Edges) - 1; k >= 0; k-- {
		pred := b.Preds[k]
		ev := x.val(st, i.Edges[k])
		if res == nil {
			res = ev
			continue
		}
		cond := x.predReach(b, pred, k)
		res = x.mergeValue(cond, ev, res)
	}
	x.regs[i] = res
}

func (x *Exec) indexAddr(st *State, i *ssa.IndexAddr) {
	c := x.c
	base := x.val(st, i.X)
	idx := x.intIndex(x.val(st, i.Index), i.Index.Type())
	switch t := i.X.Type().Underlying().(type) {
	case *types.Slice:
		s := base.(SliceV)
		x.oblige(st, "bounds", fmt.Sprintf("index %s[%s] within length", i.X.Name(), i.Index.Name()), i.Pos(),
			c.And(c.Le(c.Int(0), idx), c.Lt(idx, s.Len)), nil, "")
		x.regs[i] = PtrV{Kind: PElem, Base: s.Arr, Idx: c.Add(s.Off, idx), Elem: t.Elem()}
	case *types.Pointer:
		at := t.Elem().Underlying().(*types.Array)
		x.oblige(st, "bounds", fmt.Sprintf("index %s[%s] within array length %d", i.X.Name(), i.Index.Name(), at.Len()), i.Pos(),
			c.And(c.Le(c.Int(0), idx), c.Lt(idx, c.Int(at.Len()))), nil, "")
		p := base.(PtrV)
		x.regs[i] = x.arrayElemPtr(st, p, at, idx)
	default:
		panic(unsupported("IndexAddr on %s", i.X.Type()))
	}
}

// arrayElemPtr: pointer to element of a fixed-size array addressed by p.
func (x *Exec) arrayElemPtr(st *State, p PtrV, at *types.Array, idx *Term) Value {
	return ArrElemPtr{Arr: p, At: at, Idx: idx}
}

// ArrElemPtr is a pointer to an element of a fixed-size array stored in a cell or field.
type ArrElemPtr struct {
	Arr PtrV
	At  *types.Array
	Idx *Term
}

func (x *Exec) intIndex(v Value, t types.Type) *Term { return x.scalar(v) }

func (x *Exec) index(st *State, i *ssa.Index) {
	c := x.c
	idx := x.scalar(x.val(st, i.Index))
	switch t := i.X.Type().Underlying().(type) {
	case *types.Basic: // string
		s := x.val(st, i.X).(StrV)
		x.oblige(st, "bounds", fmt.Sprintf("index %s[%s] within string length", i.X.Name(), i.Index.Name()), i.Pos(),
			c.And(c.Le(c.Int(0), idx), c.Lt(idx, s.Len)), nil, "")
		b := c.Select(x.strContent(s.Ref), c.Add(s.Off, idx))
		x.assumeByte(b)
		x.regs[i] = Sc{b}
	case *types.Array:
		a := x.val(st, i.X).(ArrayV)
		x.oblige(st, "bounds", fmt.Sprintf("index %s[%s] within array length", i.X.Name(), i.Index.Name()), i.Pos(),
			c.And(c.Le(c.Int(0), idx), c.Lt(idx, c.Int(a.N))), nil, "")
		ls := leavesOf(t.Elem())
		ts := make([]*Term, len(ls))
		for k, l := range ls {
			ts[k] = c.Select(a.L[l.suffix], idx)
		}
		v := x.unflatten(t.Elem(), &ts)
		x.assumeRanges(st, v, t.Elem())
		x.regs[i] = v
	default:
		panic(unsupported("Index on %s", i.X.Type()))
	}
}

func (x *Exec) assumeByte(b *Term) {
	f := x.c.And(x.c.Le(x.c.Int(0), b), x.c.Le(b, x.c.Int(255)))
	if !x.ranged[f] {
		x.ranged[f] = true
		x.hyps = append(x.hyps, f)
	}
}

func (x *Exec) unop(st *State, i *ssa.UnOp) {
	c := x.c
	v := x.val(st, i.X)
	switch i.Op {
	case token.MUL: // load
		switch p := v.(type) {
		case PtrV:
			if p.Kind == PRef {
				x.oblige(st, "nilptr", fmt.Sprintf("nil dereference of %s", i.X.Name()), i.Pos(), c.Neq(p.Base, c.Int(0)), nil, "")
			}
			x.regs[i] = x.loadPtr(st, p, i.Type())
		case ArrElemPtr:
			x.regs[i] = x.loadArrElem(st, p, i.Type())
		default:
			panic(unsupported("load through %T", v))
		}
	case token.NOT:
		x.regs[i] = Sc{c.Not(x.scalar(v))}
	case token.SUB:
		if isFloat(i.Type()) {
			x.regs[i] = Sc{c.FOp("fp.neg", x.scalar(v))}
		} else {
			b := i.Type().Underlying().(*types.Basic)
			lo, _, bits, signed := intRange(b)
			r := c.Neg(x.scalar(v))
			if signed {
				x.oblige(st, "no-overflow", "negation does not overflow", i.Pos(), c.Neq(x.scalar(v), c.IntBig(lo)), nil, "")
				x.regs[i] = Sc{r}
			} else {
				x.regs[i] = Sc{c.Mod2(r, bits)}
			}
		}
	case token.XOR:
		b := i.Type().Underlying().(*types.Basic)
		_, _, bits, signed := intRange(b)
		if signed {
			x.regs[i] = Sc{c.Sub(c.Neg(x.scalar(v)), c.Int(1))}
		} else {
			m := new(big.Int).Sub(new(big.Int).Lsh(big1, uint(bits)), big1)
			x.regs[i] = Sc{c.Sub(c.IntBig(m), x.scalar(v))}
		}
	case token.ARROW:
		panic(fatalf("channel receive"))
	default:
		panic(unsupported("unop %s", i.Op))
	}
}

func (x *Exec) loadArrElem(st *State, p ArrElemPtr, t types.Type) Value {
	arr := x.loadPtr(st, p.Arr, p.At).(ArrayV)
	ls := leavesOf(t)
	ts := make([]*Term, len(ls))
	for k, l := range ls {
		ts[k] = x.c.Select(arr.L[l.suffix], p.Idx)
	}
	v := x.unflatten(t, &ts)
	x.assumeRanges(st, v, t)
	return v
}

func isFloat(t types.Type) bool {
	b, ok := t.Underlying().(*types.Basic)
	return ok && b.Info()&types.IsFloat != 0
}
func isInteger(t types.Type) bool {
	b, ok := t.Underlying().(*types.Basic)
	return ok && b.Info()&types.IsInteger != 0
}
func isString(t types.Type) bool {
	b, ok := t.Underlying().(*types.Basic)
	return ok && b.Info()&types.IsString != 0
}
func isBool(t types.Type) bool {
	b, ok := t.Underlying().(*types.Basic)
	return ok && b.Info()&types.IsBoolean != 0
}

// binop evaluates a Go binary operation; emit controls safety obligations.
func (x *Exec) binop(st *State, op token.Token, a, b Value, ta, tb, tr types.Type, pos token.Pos, emit bool) Value {
	c := x.c
	switch {
	case isFloat(ta) && (op != token.SHL && op != token.SHR):
		fa, fb := x.scalar(a), x.scalar(b)
		switch op {
		case token.ADD:
			return Sc{c.FOp("fp.add", fa, fb)}
		case token.SUB:
			return Sc{c.FOp("fp.sub", fa, fb)}
		case token.MUL:
			return Sc{c.FOp("fp.mul", fa, fb)}
		case token.QUO:
			return Sc{c.FOp("fp.div", fa, fb)}
		case token.EQL:
			return Sc{c.FOp("fp.eq", fa, fb)}
		case token.NEQ:
			return Sc{c.Not(c.FOp("fp.eq", fa, fb))}
		case token.LSS:
			return Sc{c.FOp("fp.lt", fa, fb)}
		case token.LEQ:
			return Sc{c.FOp("fp.leq", fa, fb)}
		case token.GTR:
			return Sc{c.FOp("fp.gt", fa, fb)}
		case token.GEQ:
			return Sc{c.FOp("fp.geq", fa, fb)}
		}
	case isInteger(ta):
		ia, ib := x.scalar(a), x.scalar(b)
		bt := ta.Underlying().(*types.Basic)
		lo, hi, bits, signed := intRange(bt)
		arith := func(r *Term, what string) Value {
			if signed {
				if emit {
					if c.bv {
						x.oblige(st, "no-overflow", what+" does not overflow "+bt.Name(), pos, x.bvNoOverflow(op, ia, ib, bits), nil, "")
						if bits < 64 {
							return Sc{c.SignWrap(r, bits)}
						}
					} else {
						x.oblige(st, "no-overflow", what+" does not overflow "+bt.Name(), pos, c.InRange(r, lo, hi), nil, "")
					}
				} else if !c.bv {
					return Sc{c.SignWrap(r, bits)}
				}
				return Sc{r}
			}
			return Sc{c.Mod2(r, bits)}
		}
		switch op {
		case token.ADD:
			return arith(c.Add(ia, ib), "addition")
		case token.SUB:
			return arith(c.Sub(ia, ib), "subtraction")
		case token.MUL:
			return arith(c.Mul(ia, ib), "multiplication")
		case token.QUO:
			if emit {
				x.oblige(st, "nonzero", "division by zero", pos, c.Neq(ib, c.Int(0)), nil, "")
			}
			if signed {
				return Sc{c.Quo(ia, ib)}
			}
			return Sc{c.UQuo(ia, ib)}
		case token.REM:
			if emit {
				x.oblige(st, "nonzero", "modulo by zero", pos, c.Neq(ib, c.Int(0)), nil, "")
			}
			if signed {
				return Sc{c.Rem(ia, ib)}
			}
			return Sc{c.URem(ia, ib)}
		case token.EQL:
			return Sc{c.Eq(ia, ib)}
		case token.NEQ:
			return Sc{c.Neq(ia, ib)}
		case token.LSS:
			if !signed {
				return Sc{c.ULt(ia, ib)}
			}
			return Sc{c.Lt(ia, ib)}
		case token.LEQ:
			if !signed {
				return Sc{c.ULe(ia, ib)}
			}
			return Sc{c.Le(ia, ib)}
		case token.GTR:
			if !signed {
				return Sc{c.ULt(ib, ia)}
			}
			return Sc{c.Lt(ib, ia)}
		case token.GEQ:
			if !signed {
				return Sc{c.ULe(ib, ia)}
			}
			return Sc{c.Le(ib, ia)}
		case token.AND, token.OR, token.XOR, token.AND_NOT, token.SHL, token.SHR:
			return Sc{x.bitop(op, ia, ib, bits, signed)}
		}
	case isBool(ta):
		ba, bb := x.scalar(a), x.scalar(b)
		switch op {
		case token.EQL:
			return Sc{c.Eq(ba, bb)}
		case token.NEQ:
			return Sc{c.Neq(ba, bb)}
		case token.LAND:
			return Sc{c.And(ba, bb)}
		case token.LOR:
			return Sc{c.Or(ba, bb)}
		}
	case isString(ta):
		sa, sb := a.(StrV), b.(StrV)
		switch op {
		case token.ADD:
			return x.strConcat(st, sa, sb)
		case token.EQL:
			return Sc{x.strEq(sa, sb)}
		case token.NEQ:
			return Sc{c.Not(x.strEq(sa, sb))}
		case token.LSS:
			return Sc{x.strLt(sa, sb)}
		case token.GTR:
			return Sc{x.strLt(sb, sa)}
		case token.LEQ:
			return Sc{c.Not(x.strLt(sb, sa))}
		case token.GEQ:
			return Sc{c.Not(x.strLt(sa, sb))}
		}
	default:
		// pointers, interfaces, maps, funcs, structs: == and !=
		if op == token.EQL || op == token.NEQ {
			eq := x.valueEq(a, b, ta, tb)
			if op == token.NEQ {
				eq = c.Not(eq)
			}
			return Sc{eq}
		}
	}
	panic(unsupported("binop %s on %s", op, ta))
}

func (x *Exec) bvNoOverflow(op token.Token, a, b *Term, bits int) *Term {
	c := x.c
	if bits < 64 {
		var r *Term
		switch op {
		case token.ADD:
			r = c.Add(a, b)
		case token.SUB:
			r = c.Sub(a, b)
		case token.MUL:
			r = c.Mul(a, b)
		}
		lo := new(big.Int).Neg(new(big.Int).Lsh(big1, uint(bits-1)))
		hi := new(big.Int).Sub(new(big.Int).Lsh(big1, uint(bits-1)), big1)
		return c.InRange(r, lo, hi)
	}
	zero := c.Int(0)
	neg := func(t *Term) *Term { return c.Lt(t, zero) }
	switch op {
	case token.ADD:
		r := c.Add(a, b)
		// overflow iff operands have the same sign and the result's sign differs
		return c.Not(c.Or(c.And(c.Not(neg(a)), c.Not(neg(b)), neg(r)), c.And(neg(a), neg(b), c.Not(neg(r)))))
	case token.SUB:
		r := c.Sub(a, b)
		return c.Not(c.Or(c.And(c.Not(neg(a)), neg(b), neg(r)), c.And(neg(a), c.Not(neg(b)), c.Not(neg(r)))))
	case token.MUL:
		// compare with the 128-bit product
		ext := func(t *Term) *Term { return c.mk("(_ sign_extend 64)", "(_ BitVec 128)", t) }
		wide := c.mk("bvmul", "(_ BitVec 128)", ext(a), ext(b))
		return c.mk("=", SBool, wide, ext(c.Mul(a, b)))
	}
	panic("bvNoOverflow")
}

func (x *Exec) bitop(op token.Token, a, b *Term, bits int, signed bool) *Term {
	c := x.c
	if c.bv {
		switch op {
		case token.AND:
			return c.mk("bvand", SInt, a, b)
		case token.OR:
			return c.mk("bvor", SInt, a, b)
		case token.XOR:
			return c.mk("bvxor", SInt, a, b)
		case token.AND_NOT:
			return c.mk("bvand", SInt, a, c.mk("bvnot", SInt, b))
		case token.SHL:
			r := c.mk("bvshl", SInt, a, b)
			if bits < 64 {
				if signed {
					return c.SignWrap(r, bits)
				}
				return c.Mod2(r, bits)
			}
			return r
		case token.SHR:
			if signed {
				return c.mk("bvashr", SInt, a, b)
			}
			return c.mk("bvlshr", SInt, a, b)
		}
	}
	// math mode: constant folding, and shifts by literal amounts as multiplication/division
	if x1, ok := c.litVal(a); ok {
		if y1, ok := c.litVal(b); ok {
			r := new(big.Int)
			switch op {
			case token.AND:
				r.And(x1, y1)
			case token.OR:
				r.Or(x1, y1)
			case token.XOR:
				r.Xor(x1, y1)
			case token.AND_NOT:
				r.AndNot(x1, y1)
			case token.SHL:
				r.Lsh(x1, uint(y1.Int64()))
			case token.SHR:
				r.Rsh(x1, uint(y1.Int64()))
			}
			return c.IntBig(r)
		}
	}
	if y1, ok := c.litVal(b); ok {
		switch op {
		case token.SHL:
			r := c.Mul(a, c.IntBig(new(big.Int).Lsh(big1, uint(y1.Int64()))))
			if signed {
				return c.SignWrap(r, bits)
			}
			return c.Mod2(r, bits)
		case token.SHR:
			return c.mk("div", SInt, a, c.IntBig(new(big.Int).Lsh(big1, uint(y1.Int64()))))
		case token.AND:
			// x & (2^k-1) == x mod 2^k for non-negative x; & with a single-bit mask handled as uninterpreted
			m := new(big.Int).Add(y1, big1)
			if y1.Sign() >= 0 && m.BitLen() > 0 && new(big.Int).And(m, y1).Sign() == 0 && !signed {
				return c.mk("mod", SInt, a, c.IntBig(m))
			}
		}
	}
	name := map[token.Token]string{token.AND: "bit_and", token.OR: "bit_or", token.XOR: "bit_xor", token.AND_NOT: "bit_andnot", token.SHL: "bit_shl", token.SHR: "bit_shr"}[op]
	x.ledger["uninterpreted bit operation "+name+" (math integer mode)"] = true
	r := c.App(name, SInt, a, b)
	if op == token.AND {
		// basic facts for masks
		x.hyps = append(x.hyps, c.Implies(c.And(c.Le(c.Int(0), a), c.Le(c.Int(0), b)), c.And(c.Le(c.Int(0), r), c.Le(r, a), c.Le(r, b))))
	}
	return r
}

func (x *Exec) valueEq(a, b Value, ta, tb types.Type) *Term {
	c := x.c
	switch av := a.(type) {
	case Sc:
		return c.Eq(av.T, x.scalar(b))
	case PtrV:
		return c.Eq(x.ptrTerm(a), x.ptrTerm(b))
	case IfaceV:
		bv, ok := b.(IfaceV)
		if !ok {
			panic(unsupported("iface compared with %T", b))
		}
		// comparison with nil: tags only
		return c.And(c.Eq(av.Tag, bv.Tag), c.Or(c.Eq(av.Tag, c.Int(0)), c.Eq(av.Val, bv.Val)))
	case SliceV:
		bv := b.(SliceV) // only slice == nil is legal Go
		_ = bv
		return c.Eq(av.Arr, c.Int(0))
	case FuncV:
		return c.Eq(x.funcTerm(a), x.funcTerm(b))
	case StructV:
		bv := b.(StructV)
		s := ta.Underlying().(*types.Struct)
		var parts []*Term
		for i := range av.F {
			ft := s.Field(i).Type()
			if isString(ft) {
				parts = append(parts, x.strEq(av.F[i].(StrV), bv.F[i].(StrV)))
			} else if isFloat(ft) {
				parts = append(parts, c.FOp("fp.eq", x.scalar(av.F[i]), x.scalar(bv.F[i])))
			} else {
				parts = append(parts, x.valueEq(av.F[i], bv.F[i], ft, ft))
			}
		}
		return c.And(parts...)
	case StrV:
		return x.strEq(av, b.(StrV))
	}
	panic(unsupported("equality on %T", a))
}

// ---- strings --------------------------------------------------------------------------

// strEq is Go's == on strings. Identical views are equal; equal strings have
// equal length; comparison with a short literal expands to bytes.
func (x *Exec) strEq(a, b StrV) *Term {
	c := x.c
	if a == b {
		return c.True()
	}
	if la, ok := c.litVal(a.Len); ok && la.Sign() == 0 {
		return c.Eq(b.Len, c.Int(0))
	}
	if lb, ok := c.litVal(b.Len); ok && lb.Sign() == 0 {
		return c.Eq(a.Len, c.Int(0))
	}
	// literal expansion
	if lit, ok := x.litOf(b); ok && len(lit) <= 16 {
		return x.eqLit(a, lit)
	}
	if lit, ok := x.litOf(a); ok && len(lit) <= 16 {
		return x.eqLit(b, lit)
	}
	ca, cb := x.strContent(a.Ref), x.strContent(b.Ref)
	e := c.App("str_eq", SBool, ca, a.Off, a.Len, cb, b.Off, b.Len)
	if e.bound {
		// under a quantifier: the facts about str_eq cannot be stated as top-level hypotheses; build
		// them into the term (equivalent to e under those facts)
		same := c.And(c.Eq(ca, cb), c.Eq(a.Off, b.Off), c.Eq(a.Len, b.Len))
		empty := c.And(c.Eq(a.Len, c.Int(0)), c.Eq(b.Len, c.Int(0)))
		return c.Or(same, empty, c.And(e, c.Eq(a.Len, b.Len)))
	}
	x.hyps = append(x.hyps, c.Implies(e, c.Eq(a.Len, b.Len)))
	x.hyps = append(x.hyps, c.Implies(c.And(c.Eq(ca, cb), c.Eq(a.Off, b.Off), c.Eq(a.Len, b.Len)), e))
	x.hyps = append(x.hyps, c.Implies(c.And(c.Eq(a.Len, c.Int(0)), c.Eq(b.Len, c.Int(0))), e))
	x.hyps = append(x.hyps, c.Eq(e, c.App("str_eq", SBool, cb, b.Off, b.Len, ca, a.Off, a.Len)))
	// equal strings begin with the same byte; one-byte strings are equal when that byte is
	fa, fb := c.Select(ca, a.Off), c.Select(cb, b.Off)
	x.hyps = append(x.hyps, c.Implies(c.And(e, c.Le(c.Int(1), a.Len)), c.Eq(fa, fb)))
	x.hyps = append(x.hyps, c.Implies(c.And(c.Eq(a.Len, c.Int(1)), c.Eq(b.Len, c.Int(1)), c.Eq(fa, fb)), e))
	return e
}

func (x *Exec) litOf(s StrV) (string, bool) {
	for k, v := range x.strLits {
		if v == s {
			return k, true
		}
	}
	return "", false
}

func (x *Exec) eqLit(a StrV, lit string) *Term {
	c := x.c
	parts := []*Term{c.Eq(a.Len, c.Int(int64(len(lit))))}
	content := x.strContent(a.Ref)
	for i := 0; i < len(lit); i++ {
		parts = append(parts, c.Eq(c.Select(content, c.Add(a.Off, c.Int(int64(i)))), c.Int(int64(lit[i]))))
	}
	return c.And(parts...)
}

func (x *Exec) strLt(a, b StrV) *Term {
	c := x.c
	if a == b {
		return c.False()
	}
	ca, cb := x.strContent(a.Ref), x.strContent(b.Ref)
	lt := c.App("str_lt", SBool, ca, a.Off, a.Len, cb, b.Off, b.Len)
	gt := c.App("str_lt", SBool, cb, b.Off, b.Len, ca, a.Off, a.Len)
	eq := x.strEq(a, b)
	// strict total order: exactly one of <, ==, >
	x.hyps = append(x.hyps, c.Or(lt, eq, gt), c.Not(c.And(lt, eq)), c.Not(c.And(gt, eq)), c.Not(c.And(lt, gt)))
	return lt
}

func (x *Exec) strConcat(st *State, a, b StrV) Value {
	c := x.c
	if l, ok := c.litVal(a.Len); ok && l.Sign() == 0 {
		return b
	}
	if l, ok := c.litVal(b.Len); ok && l.Sign() == 0 {
		return a
	}
	ref := x.allocRef(st)
	r := StrV{ref, c.Int(0), c.Add(a.Len, b.Len)}
	// content: uninterpreted concat with pointwise axioms
	ca, cb := x.strContent(a.Ref), x.strContent(b.Ref)
	cat := c.App("str_cat", ArrSort(SInt, SInt), ca, a.Off, a.Len, cb, b.Off, b.Len)
	x.hyps = append(x.hyps, c.Eq(x.strContent(ref), cat))
	k := c.BoundVar("k", SInt)
	body := c.And(
		c.Implies(c.And(c.Le(c.Int(0), k), c.Lt(k, a.Len)), c.Eq(c.Select(cat, k), c.Select(ca, c.Add(a.Off, k)))),
		c.Implies(c.And(c.Le(a.Len, k), c.Lt(k, c.Add(a.Len, b.Len))), c.Eq(c.Select(cat, k), c.Select(cb, c.Add(b.Off, c.Sub(k, a.Len))))))
	x.hyps = append(x.hyps, c.Forall([]*Term{k}, body, [][]*Term{{c.Select(cat, k)}}))
	return r
}

// ---- slices -----------------------------------------------------------------------------

func (x *Exec) slice(st *State, i *ssa.Slice) {
	c := x.c
	base := x.val(st, i.X)
	var lo, hi, max *Term
	if i.Low != nil {
		lo = x.scalar(x.val(st, i.Low))
	} else {
		lo = c.Int(0)
	}
	if i.High != nil {
		hi = x.scalar(x.val(st, i.High))
	}
	if i.Max != nil {
		max = x.scalar(x.val(st, i.Max))
	}
	desc := fmt.Sprintf("slice %s[%s:%s]", i.X.Name(), nameOr(i.Low), nameOr(i.High))
	switch t := i.X.Type().Underlying().(type) {
	case *types.Slice:
		s := base.(SliceV)
		if hi == nil {
			hi = s.Len
		}
		limit := s.Cap
		if max == nil {
			max = s.Cap
		} else {
			x.oblige(st, "slice", desc+" max within capacity", i.Pos(), c.And(c.Le(hi, max), c.Le(max, s.Cap)), nil, "")
		}
		x.oblige(st, "slice", desc+" within capacity: 0 <= low <= high <= cap", i.Pos(), c.And(c.Le(c.Int(0), lo), c.Le(lo, hi), c.Le(hi, limit)), nil, "")
		x.regs[i] = SliceV{s.Arr, c.Add(s.Off, lo), c.Sub(hi, lo), c.Sub(max, lo)}
	case *types.Basic:
		s := base.(StrV)
		if hi == nil {
			hi = s.Len
		}
		x.oblige(st, "slice", desc+" within string: 0 <= low <= high <= len", i.Pos(), c.And(c.Le(c.Int(0), lo), c.Le(lo, hi), c.Le(hi, s.Len)), nil, "")
		x.regs[i] = StrV{s.Ref, c.Add(s.Off, lo), c.Sub(hi, lo)}
	case *types.Pointer:
		at := t.Elem().Underlying().(*types.Array)
		n := c.Int(at.Len())
		if hi == nil {
			hi = n
		}
		x.oblige(st, "slice", desc+" within array", i.Pos(), c.And(c.Le(c.Int(0), lo), c.Le(lo, hi), c.Le(hi, n)), nil, "")
		// slicing an array: copy contents into a fresh backing array (aliasing with the array cell is dropped)
		p := base.(PtrV)
		arr := x.loadPtr(st, p, at).(ArrayV)
		ref := x.allocRef(st)
		for _, l := range leavesOf(at.Elem()) {
			k := "E:" + typeKey(at.Elem()) + l.suffix
			h := x.heapGetK(st, k, ArrSort(SInt, ArrSort(SInt, l.sort)))
			st.heap[k] = c.Store(h, ref, arr.L[l.suffix])
		}
		x.ledger["slice of fixed array modelled as copy (aliasing dropped) in "+shortFunc(i.Parent().String())] = true
		x.regs[i] = SliceV{ref, lo, c.Sub(hi, lo), c.Sub(n, lo)}
	default:
		panic(unsupported("Slice on %s", i.X.Type()))
	}
}

func nameOr(v ssa.Value) string {
	if v == nil {
		return ""
	}
	return v.Name()
}

func (x *Exec) makeSlice(st *State, i *ssa.MakeSlice) {
	c := x.c
	n := x.scalar(x.val(st, i.Len))
	cp := x.scalar(x.val(st, i.Cap))
	x.oblige(st, "makeslice", "make: 0 <= len <= cap", i.Pos(), c.And(c.Le(c.Int(0), n), c.Le(n, cp), c.Le(cp, c.IntBig(maxLenBig))), nil, "")
	ref := x.allocRef(st)
	et := i.Type().Underlying().(*types.Slice).Elem()
	for _, l := range leavesOf(et) {
		k := "E:" + typeKey(et) + l.suffix
		h := x.heapGetK(st, k, ArrSort(SInt, ArrSort(SInt, l.sort)))
		st.heap[k] = c.Store(h, ref, x.zeroLeaf(ArrSort(SInt, l.sort)))
	}
	x.regs[i] = SliceV{ref, c.Int(0), n, cp}
}

// ---- conversions ----------------------------------------------------------------------------

func (x *Exec) convert(st *State, v Value, from, to types.Type, pos token.Pos) Value {
	c := x.c
	fu, tu := from.Underlying(), to.Underlying()
	switch {
	case isInteger(from) && isInteger(to):
		_, _, fbits, fsigned := intRange(fu.(*types.Basic))
		lo, hi, tbits, tsigned := intRange(tu.(*types.Basic))
		t := x.scalar(v)
		_ = lo
		_ = hi
		if tsigned {
			if fsigned && fbits <= tbits {
				return Sc{t}
			}
			if !fsigned && fbits < tbits {
				return Sc{t}
			}
			if c.bv && tbits == 64 {
				return Sc{t}
			}
			return Sc{c.SignWrap(t, tbits)}
		}
		if !fsigned && fbits <= tbits {
			return Sc{t}
		}
		return Sc{c.Mod2(t, tbits)}
	case isInteger(from) && isFloat(to):
		t := x.scalar(v)
		_, _, _, signed := intRange(fu.(*types.Basic))
		if c.bv {
			if signed {
				return Sc{c.mk("(_ to_fp 11 53)", SF64, c.mk("RNE", "RoundingMode"), t)}
			}
			return Sc{c.mk("(_ to_fp_unsigned 11 53)", SF64, c.mk("RNE", "RoundingMode"), t)}
		}
		return Sc{x.intToFloat(t)}
	case isFloat(from) && isInteger(to):
		return Sc{x.floatToInt(x.scalar(v), tu.(*types.Basic))}
	case isFloat(from) && isFloat(to):
		if tu.(*types.Basic).Kind() == types.Float32 || fu.(*types.Basic).Kind() == types.Float32 {
			x.ledger["float32 treated as float64"] = true
		}
		return v
	case isString(to):
		switch f := fu.(type) {
		case *types.Slice: // string([]byte) / string([]rune)
			if b, ok := f.Elem().Underlying().(*types.Basic); ok && b.Kind() == types.Uint8 {
				s := v.(SliceV)
				ref := x.allocRef(st)
				content := c.Select(x.heapGetK(st, "E:"+typeKey(f.Elem()), ArrSort(SInt, ArrSort(SInt, SInt))), s.Arr)
				x.assume(st, c.Eq(x.strContent(ref), content))
				return StrV{ref, s.Off, s.Len}
			}
		case *types.Basic:
			if f.Info()&types.IsString != 0 {
				return v
			}
			if f.Info()&types.IsInteger != 0 { // string(rune)
				ref := x.allocRef(st)
				n := x.c.Fresh("runelen", SInt)
				x.hyps = append(x.hyps, c.And(c.Le(c.Int(1), n), c.Le(n, c.Int(4))))
				r := x.scalar(v)
				x.hyps = append(x.hyps, c.Implies(c.And(c.Le(c.Int(0), r), c.Lt(r, c.Int(128))),
					c.And(c.Eq(n, c.Int(1)), c.Eq(c.Select(x.strContent(ref), c.Int(0)), r))))
				return StrV{ref, c.Int(0), n}
			}
		}
	case isString(from):
		if tsl, ok := tu.(*types.Slice); ok {
			if b, ok := tsl.Elem().Underlying().(*types.Basic); ok && b.Kind() == types.Uint8 {
				s := v.(StrV)
				ref := x.allocRef(st)
				k := "E:" + typeKey(tsl.Elem())
				h := x.heapGetK(st, k, ArrSort(SInt, ArrSort(SInt, SInt)))
				st.heap[k] = c.Store(h, ref, x.strContent(s.Ref))
				return SliceV{ref, s.Off, s.Len, s.Len}
			}
		}
	}
	if _, ok := tu.(*types.Pointer); ok {
		return v
	}
	if types.Identical(fu, tu) {
		return v
	}
	panic(unsupported("convert %s -> %s", from, to))
}

// intToFloat (math integer mode): literals convert exactly; otherwise an uninterpreted function
// with sign facts (see floatToInt).
func (x *Exec) intToFloat(t *Term) *Term {
	c := x.c
	if v, ok := c.litVal(t); ok {
		f, _ := new(big.Float).SetInt(v).Float64()
		return c.F64Lit(f)
	}
	r := c.App("i2f", SF64, t)
	fact := c.And(c.Not(c.FOp("fp.isNaN", r)), c.Not(c.FOp("fp.isInfinite", r)),
		c.Eq(c.Le(c.Int(0), t), c.FOp("fp.geq", r, c.F64Lit(0))),
		c.Eq(c.Le(c.Int(1), t), c.FOp("fp.geq", r, c.F64Lit(1))))
	if !x.ranged[fact] && !fact.bound {
		x.ranged[fact] = true
		x.hyps = append(x.hyps, fact)
	}
	return r
}

// floatToInt: amd64 semantics (CVTTSD2SQ): NaN and out-of-range give 0x8000000000000000;
// narrower targets truncate the 64-bit result.
func (x *Exec) floatToInt(f *Term, to *types.Basic) *Term {
	c := x.c
	x.ledger["arch:amd64 float->int conversion (NaN / out of range gives MinInt64)"] = true
	_, _, bits, signed := intRange(to)
	var r *Term
	if c.bv {
		lo := c.F64Lit(-9223372036854775808.0)
		hi := c.F64Lit(9223372036854775808.0)
		inr := c.And(c.FOp("fp.geq", f, lo), c.FOp("fp.lt", f, hi))
		conv := c.mk("(_ fp.to_sbv 64)", SInt, c.mk("RTZ", "RoundingMode"), f)
		r = c.Ite(inr, conv, c.IntBig(new(big.Int).Neg(new(big.Int).Lsh(big1, 63))))
		if !signed && bits == 64 {
			x.ledger["float->uint64 conversion above 2^63 not modelled exactly"] = true
		}
		if bits < 64 {
			if signed {
				r = c.SignWrap(r, bits)
			} else {
				r = c.Mod2(r, bits)
			}
		}
		return r
	}
	lo := c.F64Lit(-9223372036854775808.0)
	hi := c.F64Lit(9223372036854775808.0)
	inr := c.And(c.FOp("fp.geq", f, lo), c.FOp("fp.lt", f, hi))
	// math integer mode: the in-range conversion is an uninterpreted function of the float with
	// range and sign facts (mixing Int, Real and FloatingPoint makes queries intractable); functions
	// whose proof needs the exact conversion are encoded with 64-bit vectors (ints bv64)
	x.ledger["math integer mode: float->int and int->float conversions are uninterpreted functions with range/sign facts (exact in bv64 functions)"] = true
	conv := c.App("f2i", SInt, f)
	min63 := new(big.Int).Neg(new(big.Int).Lsh(big1, 63))
	max63 := new(big.Int).Sub(new(big.Int).Lsh(big1, 63), big1)
	fact := c.And(c.InRange(conv, min63, max63),
		c.Implies(c.FOp("fp.geq", f, c.F64Lit(0)), c.Le(c.Int(0), conv)),
		c.Implies(c.FOp("fp.leq", f, c.F64Lit(0)), c.Le(conv, c.Int(0))),
		c.Implies(c.FOp("fp.geq", f, c.F64Lit(1)), c.Le(c.Int(1), conv)),
		c.Implies(c.FOp("fp.lt", f, c.F64Lit(1)), c.Le(conv, c.Int(0))))
	if !x.ranged[fact] && !fact.bound {
		x.ranged[fact] = true
		x.hyps = append(x.hyps, fact)
	}
	r = c.Ite(inr, conv, c.IntBig(min63))
	if bits < 64 {
		if signed {
			r = c.SignWrap(r, bits)
		} else {
			r = c.Mod2(r, bits)
		}
	} else if !signed {
		r = c.Mod2(r, 64)
	}
	return r
}

// ---- interfaces -------------------------------------------------------------------------------

func (x *Exec) makeInterface(st *State, v Value, t types.Type) Value {
	c := x.c
	tag := x.typeID(t)
	var payload *Term
	switch vv := v.(type) {
	case Sc:
		if vv.T.sort == c.IntSort() {
			payload = vv.T
		}
	case PtrV:
		payload = x.ptrTerm(v)
	}
	if payload == nil {
		// box: payload is an opaque handle; unbox functions recover the leaves
		payload = c.Fresh("box", SInt)
		ls := leavesOf(t)
		ts := x.flatten(v, t)
		for i, l := range ls {
			x.hyps = append(x.hyps, c.Eq(c.App("unbox_"+typeKey(t)+l.suffix, l.sort, payload), ts[i]))
		}
	}
	return IfaceV{tag, payload}
}

func (x *Exec) unbox(payload *Term, t types.Type) Value {
	c := x.c
	switch t.Underlying().(type) {
	case *types.Pointer:
		return PtrV{Kind: PRef, Base: payload}
	case *types.Basic:
		if isInteger(t) {
			return Sc{payload}
		}
	}
	ls := leavesOf(t)
	ts := make([]*Term, len(ls))
	for i, l := range ls {
		ts[i] = c.App("unbox_"+typeKey(t)+l.suffix, l.sort, payload)
	}
	return x.unflatten(t, &ts)
}

func (x *Exec) typeAssert(st *State, i *ssa.TypeAssert) {
	c := x.c
	iv := x.val(st, i.X).(IfaceV)
	if _, isIface := i.AssertedType.Underlying().(*types.Interface); isIface {
		// interface-to-interface assertion: succeeds iff non-nil and implements (unknown)
		ok := c.Fresh("implements", SBool)
		x.hyps = append(x.hyps, c.Implies(ok, c.Neq(iv.Tag, c.Int(0))))
		if i.CommaOk {
			x.regs[i] = TupleV{E: []Value{x.mergeValue(ok, iv, x.zeroValue(i.AssertedType)), Sc{ok}}}
		} else {
			x.oblige(st, "assert-type", "interface assertion succeeds", i.Pos(), ok, nil, "")
			x.regs[i] = iv
		}
		return
	}
	tag := x.typeID(i.AssertedType)
	ok := c.Eq(iv.Tag, tag)
	v := x.unbox(iv.Val, i.AssertedType)
	x.assumeRanges(st, v, i.AssertedType)
	if i.CommaOk {
		x.regs[i] = TupleV{E: []Value{x.mergeValue(ok, v, x.zeroValue(i.AssertedType)), Sc{ok}}}
		return
	}
	x.oblige(st, "assert-type", fmt.Sprintf("type assertion %s.(%s) succeeds", i.X.Name(), typeKey(i.AssertedType)), i.Pos(), ok, nil, "")
	x.regs[i] = v
}

// ---- select / defer -----------------------------------------------------------------------------

func (x *Exec) selectInstr(st *State, i *ssa.Select) {
	if i.Blocking {
		panic(fatalf("blocking select"))
	}
	c := x.c
	idx := c.Fresh("select", SInt)
	x.hyps = append(x.hyps, c.And(c.Le(c.Int(-1), idx), c.Lt(idx, c.Int(int64(len(i.States))))))
	tu := i.Type().(*types.Tuple)
	vals := []Value{Sc{idx}, Sc{c.Fresh("recvOk", SBool)}}
	for k := 2; k < tu.Len(); k++ {
		vals = append(vals, x.freshValue("recv", tu.At(k).Type()))
	}
	x.regs[i] = TupleV{E: vals}
}

type deferred struct {
	call *ssa.Defer
	cond *Term
	args []Value
	fn   Value
}

// Defer: only defer statements in the entry block (executed exactly once on every path, before
// anything else can return) are modelled: they run, last first, at every rundefers. recover() is not
// modelled (a deferred closure that calls it degrades to UNMODELLED).
func (x *Exec) deferCall(st *State, i *ssa.Defer) {
	if i.Block() != i.Parent().Blocks[0] {
		panic(fatalf("conditional defer in %s (not modelled)", i.Parent()))
	}
	if x.deferStack == nil {
		x.deferStack = map[*ssa.Function][]*ssa.Defer{}
	}
	x.deferStack[i.Parent()] = append(x.deferStack[i.Parent()], i)
}

func (x *Exec) runDefers(st *State, i *ssa.RunDefers) {
	ds := x.deferStack[i.Parent()]
	for k := len(ds) - 1; k >= 0; k-- {
		d := ds[k]
		res := x.doCall(st, &d.Call, d, d.Pos())
		x.ghostAfterCall(st, &d.Call, d.Parent(), d.Pos(), res)
	}
}
