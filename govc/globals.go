package main

import (
	"golang.org/x/tools/go/ssa"
)

// errorGlobal reports whether g is a package-level variable that its package's init function assigns
// the result of errors.New or fmt.Errorf (io.EOF, interp.errExit, ...), and nothing else in that
// package's init assigns it.
func (w *World) errorGlobal(g *ssa.Global) bool {
	if w.errGlobals == nil {
		w.errGlobals = map[*ssa.Global]bool{}
		for _, p := range w.prog.AllPackages() {
			init := p.Func("init")
			if init == nil {
				continue
			}
			var fns []*ssa.Function
			fns = append(fns, init)
			// package initialisers of variables may be split into init#N helpers; all are reachable from init
			seen := map[*ssa.Function]bool{init: true}
			for i := 0; i < len(fns); i++ {
				for _, b := range fns[i].Blocks {
					for _, in := range b.Instrs {
						if c, ok := in.(*ssa.Call); ok {
							if f, ok := c.Call.Value.(*ssa.Function); ok && f.Pkg == p && !seen[f] && len(f.Blocks) > 0 && f.Synthetic != "" {
								seen[f] = true
								fns = append(fns, f)
							}
						}
					}
				}
			}
			bad := map[*ssa.Global]bool{}
			for _, f := range fns {
				for _, b := range f.Blocks {
					for _, in := range b.Instrs {
						st, ok := in.(*ssa.Store)
						if !ok {
							continue
						}
						gl, ok := st.Addr.(*ssa.Global)
						if !ok {
							continue
						}
						good := false
						v := st.Val
						if mi, ok := v.(*ssa.MakeInterface); ok {
							v = mi.X
						}
						if ci, ok := v.(*ssa.ChangeInterface); ok {
							v = ci.X
						}
						if c, ok := v.(*ssa.Call); ok {
							if f, ok := c.Call.Value.(*ssa.Function); ok {
								k := funcKey(f)
								good = k == "errors.New" || k == "fmt.Errorf"
							}
						}
						if good && !bad[gl] {
							w.errGlobals[gl] = true
						} else {
							bad[gl] = true
							delete(w.errGlobals, gl)
						}
					}
				}
			}
		}
	}
	return w.errGlobals[g]
}
