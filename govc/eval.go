package main

// Evaluation of contract expressions over symbolic states.

import (
	"fmt"
	"go/constant"
	"go/token"
	"go/types"
	"math/big"
	"strconv"
	"strings"

	"golang.org/x/tools/go/ssa"
)

type TV struct {
	V Value
	T types.Type
}

type Env struct {
	x           *Exec
	st          *State // state in which heap reads happen
	old         *State // state for old(...)
	iter        *State // state for iter(...)
	pre         *State // state for pre(...): just before the loop was entered
	names       map[string]TV
	locals      bool
	fn          *ssa.Function
	pos         token.Pos
	pkg         *types.Package
	callee      bool
	resultNames []string
	lenient     bool
	cur         *State // inside old(...) of a postcondition: the state at the return (locals keep their final value)
}

func (e *Env) with(st *State) *Env {
	n := *e
	n.st = st
	return &n
}

func (e *Env) bind(name string, tv TV) *Env {
	n := *e
	n.names = make(map[string]TV, len(e.names)+1)
	for k, v := range e.names {
		n.names[k] = v
	}
	n.names[name] = tv
	return &n
}

// envFor builds the environment for the contract of fn evaluated in state st.
func (x *Exec) envFor(fn *ssa.Function, st *State, old *State, results []Value) *Env {
	env := &Env{x: x, st: st, old: old, names: map[string]TV{}, fn: fn}
	if fn.Pkg != nil {
		env.pkg = fn.Pkg.Pkg
	} else if fn.Parent() != nil && fn.Parent().Pkg != nil {
		env.pkg = fn.Parent().Pkg.Pkg
	}
	for _, p := range fn.Params {
		if v, ok := x.regs[p]; ok {
			env.names[p.Name()] = TV{v, p.Type()}
		}
	}
	// free variables of closures: by name, current contents of the captured cell
	for _, fv := range fn.FreeVars {
		if v, ok := x.regs[fv]; ok {
			if _, ok := v.(PtrV); ok { // a local cell, or a heap box for a variable that escapes
				env.names["&"+fv.Name()] = TV{v, fv.Type()}
			}
		}
	}
	if results != nil {
		sig := fn.Signature
		if len(results) == 1 {
			x.bindResults(env, nil, sig.Results(), results[0])
		} else if len(results) > 1 {
			x.bindResults(env, nil, sig.Results(), TupleV{E: results})
		}
	}
	return env
}

func (x *Exec) evalBool(e *CE, env *Env) *Term {
	tv := x.eval(e, env)
	s, ok := tv.V.(Sc)
	if !ok || s.T.sort != SBool {
		panic(unsupported("contract expression %s is not boolean", e))
	}
	return s.T
}

var untypedInt = types.Typ[types.UntypedInt]
var untypedFloat = types.Typ[types.UntypedFloat]

func (x *Exec) eval(e *CE, env *Env) TV {
	c := x.c
	switch e.Op {
	case "paren":
		return x.eval(e.Args[0], env)
	case "int":
		bi, ok := new(big.Int).SetString(e.Int, 0)
		if !ok {
			panic(unsupported("bad integer literal %s", e.Int))
		}
		return TV{Sc{c.IntBig(bi)}, untypedInt}
	case "float":
		f, err := strconv.ParseFloat(e.Str, 64)
		if err != nil {
			panic(unsupported("bad float literal %s", e.Str))
		}
		return TV{Sc{c.F64Lit(f)}, types.Typ[types.Float64]}
	case "bool":
		return TV{Sc{c.Bool(e.Name == "true")}, types.Typ[types.Bool]}
	case "string":
		return TV{x.strLit(e.Str), types.Typ[types.String]}
	case "nil":
		return TV{nil, types.Typ[types.UntypedNil]}
	case "ident":
		return x.evalIdent(e.Name, env)
	case "old":
		if env.old == nil {
			panic(unsupported("old() not available here"))
		}
		n := *env
		n.st = env.old
		n.locals = false
		if n.cur == nil {
			n.cur = env.st
		}
		return x.eval(e.Args[0], &n)
	case "pre":
		if env.pre == nil {
			panic(unsupported("pre() is only available in loop invariants"))
		}
		n := *env
		n.st = env.pre
		return x.eval(e.Args[0], &n)
	case "iter":
		if env.iter == nil {
			// at loop entry iter == current
			return x.eval(e.Args[0], env)
		}
		n := *env
		n.st = env.iter
		return x.eval(e.Args[0], &n)
	case "sel":
		// qualified constant pkg.Name?
		if e.Args[0].Op == "ident" {
			if tv, ok := x.qualified(e.Args[0].Name, e.Name, env); ok {
				return tv
			}
		}
		base := x.eval(e.Args[0], env)
		return x.selField(base, e.Name, env)
	case "index":
		base := x.eval(e.Args[0], env)
		idx := x.eval(e.Args[1], env)
		return x.evalIndex(base, idx, env)
	case "slice":
		base := x.eval(e.Args[0], env)
		var lo, hi *Term
		if e.Args[1] != nil {
			lo = x.scalar(x.eval(e.Args[1], env).V)
		} else {
			lo = c.Int(0)
		}
		switch s := base.V.(type) {
		case SliceV:
			if e.Args[2] != nil {
				hi = x.scalar(x.eval(e.Args[2], env).V)
			} else {
				hi = s.Len
			}
			return TV{SliceV{s.Arr, c.Add(s.Off, lo), c.Sub(hi, lo), c.Sub(s.Cap, lo)}, base.T}
		case StrV:
			if e.Args[2] != nil {
				hi = x.scalar(x.eval(e.Args[2], env).V)
			} else {
				hi = s.Len
			}
			return TV{StrV{s.Ref, c.Add(s.Off, lo), c.Sub(hi, lo)}, base.T}
		case SeqV:
			if e.Args[2] != nil {
				hi = x.scalar(x.eval(e.Args[2], env).V)
			} else {
				hi = s.Len
			}
			return TV{SeqV{s.C, c.Add(s.Off, lo), c.Sub(hi, lo)}, base.T}
		}
		panic(unsupported("slice expression on %T", base.V))
	case "unary":
		a := x.eval(e.Args[0], env)
		switch e.Name {
		case "!":
			return TV{Sc{c.Not(x.scalar(a.V))}, types.Typ[types.Bool]}
		case "-":
			if isFloat(a.T) {
				return TV{Sc{c.FOp("fp.neg", x.scalar(a.V))}, a.T}
			}
			return TV{Sc{c.Neg(x.scalar(a.V))}, a.T}
		case "*":
			p, ok := a.V.(PtrV)
			if !ok {
				panic(unsupported("deref of non-pointer in contract"))
			}
			t := deref(a.T)
			return TV{x.loadPtr(env.st, p, t), t}
		}
	case "binary":
		return x.evalBinary(e, env)
	case "forall", "exists":
		return x.evalQuant(e, env)
	case "call":
		return x.evalCall(e, env)
	}
	panic(unsupported("contract expression form %s", e.Op))
}

func (x *Exec) evalIdent(name string, env *Env) TV {
	if env.locals && env.fn != nil {
		if tv, ok := x.localByName(name, env); ok {
			return tv
		}
	}
	if tv, ok := env.names[name]; ok {
		return tv
	}
	if tv, ok := env.names["result:"+name]; ok {
		return tv
	}
	if tv, ok := env.names["&"+name]; ok { // captured variable of a closure
		p := tv.V.(PtrV)
		t := deref(tv.T)
		return TV{x.loadPtr(env.st, p, t), t}
	}
	if !env.locals && env.fn != nil && !env.callee {
		// named results / locals in ensures refer to the final value
	}
	// ghost variables
	if g, ok := env.st.ghost[name]; ok {
		if g.sort == SBool {
			return TV{Sc{g}, types.Typ[types.Bool]}
		}
		return TV{Sc{g}, types.Typ[types.Int]}
	}
	// package-level constants and variables
	if env.pkg != nil {
		if tv, ok := x.pkgObject(env.pkg, name, env); ok {
			return tv
		}
	}
	if sf, ok := x.w.cs.specs[name]; ok && len(sf.Params) == 0 {
		return x.applySpec(sf, nil, env)
	}
	// a postcondition may mention a local of the function: its value at the return being checked
	if !env.locals && !env.callee && env.fn != nil && env.pos.IsValid() {
		le := env
		if env.cur != nil {
			n := *env
			n.st = env.cur
			le = &n
		}
		if tv, ok := x.localByName(name, le); ok {
			return tv
		}
	}
	panic(unsupported("unknown identifier %q in contract", name))
}

func (x *Exec) pkgObject(pkg *types.Package, name string, env *Env) (TV, bool) {
	obj := pkg.Scope().Lookup(name)
	if obj == nil {
		return TV{}, false
	}
	switch o := obj.(type) {
	case *types.Const:
		return x.constTV(o), true
	case *types.Var:
		// package-level variable: read from global heap
		for _, sp := range x.w.prog.AllPackages() {
			if sp.Pkg == pkg {
				if g, ok := sp.Members[name].(*ssa.Global); ok {
					t := o.Type()
					return TV{x.loadPtr(env.st, PtrV{Kind: PGlobal, Global: g}, t), t}, true
				}
			}
		}
	}
	return TV{}, false
}

func (x *Exec) constTV(o *types.Const) TV {
	c := x.c
	t := o.Type()
	switch {
	case isInteger(t) || t == untypedInt || t == types.Typ[types.UntypedRune]:
		bi, _ := new(big.Int).SetString(constant.ToInt(o.Val()).ExactString(), 10)
		return TV{Sc{c.IntBig(bi)}, t}
	case isFloat(t) || t == untypedFloat:
		f, _ := constant.Float64Val(o.Val())
		return TV{Sc{c.F64Lit(f)}, types.Typ[types.Float64]}
	case isString(t):
		return TV{x.strLit(constant.StringVal(o.Val())), types.Typ[types.String]}
	case isBool(t):
		return TV{Sc{c.Bool(constant.BoolVal(o.Val()))}, t}
	}
	panic(unsupported("constant %s of type %s", o.Name(), t))
}

func (x *Exec) qualified(pkgName, name string, env *Env) (TV, bool) {
	if _, ok := env.names[pkgName]; ok {
		return TV{}, false
	}
	if env.locals {
		if _, ok := x.localByName(pkgName, env); ok {
			return TV{}, false
		}
	}
	for _, p := range x.w.pkgs {
		if p.Types != nil && p.Types.Name() == pkgName {
			if tv, ok := x.pkgObject(p.Types, name, env); ok {
				return tv, true
			}
		}
	}
	if pkgName == "math" {
		switch name {
		case "MaxInt64":
			return TV{Sc{x.c.IntBig(new(big.Int).Sub(new(big.Int).Lsh(big1, 63), big1))}, untypedInt}, true
		case "MinInt64":
			return TV{Sc{x.c.IntBig(new(big.Int).Neg(new(big.Int).Lsh(big1, 63)))}, untypedInt}, true
		case "MaxInt32":
			return TV{Sc{x.c.Int(1<<31 - 1)}, untypedInt}, true
		}
	}
	return TV{}, false
}

// localByName resolves a local variable (or parameter cell) of env.fn by name,
// using lexical scope at env.pos when available.
func (x *Exec) localByName(name string, env *Env) (TV, bool) {
	fn := env.fn
	var cands []*ssa.Alloc
	// rangeindexK: the hidden index variable of the K-th range-over-slice loop of the function
	// (it holds the index of the current iteration; -1 before the first)
	if strings.HasPrefix(name, "rangeindex") && len(name) > len("rangeindex") {
		if k, err := strconv.Atoi(name[len("rangeindex"):]); err == nil {
			n := 0
			for _, l := range fn.Locals {
				if l.Comment == "rangeindex" {
					n++
					if n == k {
						if v, ok := env.st.cells[l]; ok {
							return TV{v, deref(l.Type())}, true
						}
						return TV{}, false
					}
				}
			}
			return TV{}, false
		}
	}
	for _, l := range fn.Locals {
		if l.Comment == name {
			cands = append(cands, l)
		}
	}
	// heap-allocated (escaping) locals are not in fn.Locals: search instructions
	if len(cands) == 0 {
		for _, b := range fn.Blocks {
			for _, in := range b.Instrs {
				if a, ok := in.(*ssa.Alloc); ok && a.Comment == name {
					cands = append(cands, a)
				}
			}
		}
	}
	if len(cands) == 0 {
		return TV{}, false
	}
	pick := cands[0]
	for _, cnd := range cands {
		if _, ok := env.st.cells[cnd]; ok || cnd.Heap {
			pick = cnd
			break
		}
	}
	if len(cands) > 1 && env.pos.IsValid() && env.pkg != nil {
		if sc := env.pkg.Scope().Innermost(env.pos); sc != nil {
			if _, obj := sc.LookupParent(name, env.pos); obj != nil {
				for _, cnd := range cands {
					if cnd.Pos() == obj.Pos() {
						pick = cnd
					}
				}
			}
		}
	}
	t := deref(pick.Type())
	if !pick.Heap {
		v, ok := env.st.cells[pick]
		if !ok {
			return TV{}, false
		}
		return TV{v, t}, true
	}
	if pv, ok := x.regs[pick]; ok {
		return TV{x.loadPtr(env.st, pv.(PtrV), t), t}, true
	}
	return TV{}, false
}

func (x *Exec) selField(base TV, name string, env *Env) TV {
	t := base.T
	ptr := false
	if p, ok := t.Underlying().(*types.Pointer); ok {
		t = p.Elem()
		ptr = true
	}
	obj, path, _ := types.LookupFieldOrMethod(t, true, env.pkgOf(t), name)
	fld, ok := obj.(*types.Var)
	if !ok || !fld.IsField() {
		panic(unsupported("no field %s in %s", name, t))
	}
	if ptr {
		p, ok := base.V.(PtrV)
		if !ok {
			panic(unsupported("field selection through %T", base.V))
		}
		np := x.fieldPtr(p, t, path)
		return TV{x.loadPtr(env.st, np, fld.Type()), fld.Type()}
	}
	cur := base.V
	for _, i := range path {
		cur = cur.(StructV).F[i]
	}
	return TV{cur, fld.Type()}
}

func (e *Env) pkgOf(t types.Type) *types.Package {
	if n, ok := t.(*types.Named); ok && n.Obj() != nil {
		return n.Obj().Pkg()
	}
	return e.pkg
}

func (x *Exec) fieldPtr(p PtrV, structT types.Type, path []int) PtrV {
	switch p.Kind {
	case PRef:
		named, _, ok := isNamedStruct(structT)
		if !ok {
			panic(unsupported("field of anonymous struct"))
		}
		return PtrV{Kind: PField, Base: p.Base, Struct: named, Path: append([]int{}, path...)}
	default:
		np := p
		np.Path = append(append([]int{}, p.Path...), path...)
		return np
	}
}

func (x *Exec) evalIndex(base, idx TV, env *Env) TV {
	c := x.c
	if sc, ok := base.V.(Sc); ok {
		if mt, ok := base.T.Underlying().(*types.Map); ok {
			return TV{x.mapGet(env.st, sc.T, mt, idx.V), mt.Elem()}
		}
	}
	i := x.scalar(idx.V)
	switch s := base.V.(type) {
	case SliceV:
		et := base.T.Underlying().(*types.Slice).Elem()
		v := x.loadPtr(env.st, PtrV{Kind: PElem, Base: s.Arr, Idx: c.Add(s.Off, i), Elem: et}, et)
		return TV{v, et}
	case StrV:
		b := c.Select(x.strContent(s.Ref), c.Add(s.Off, i))
		return TV{Sc{b}, types.Typ[types.Uint8]}
	case SeqV:
		var et types.Type = types.Typ[types.Uint8]
		if sl, ok := base.T.Underlying().(*types.Slice); ok {
			et = sl.Elem()
		}
		ls := leavesOf(et)
		ts := make([]*Term, len(ls))
		for k, l := range ls {
			ts[k] = c.Select(s.C[l.suffix], c.Add(s.Off, i))
		}
		return TV{x.unflatten(et, &ts), et}
	case ArrayV:
		et := base.T.Underlying().(*types.Array).Elem()
		ls := leavesOf(et)
		ts := make([]*Term, len(ls))
		for k, l := range ls {
			ts[k] = c.Select(s.L[l.suffix], i)
		}
		return TV{x.unflatten(et, &ts), et}
	case Sc:
		if mt, ok := base.T.Underlying().(*types.Map); ok {
			return TV{x.mapGet(env.st, s.T, mt, idx.V), mt.Elem()}
		}
	}
	panic(unsupported("index on %T", base.V))
}

func (x *Exec) evalBinary(e *CE, env *Env) TV {
	c := x.c
	op := e.Name
	boolT := types.Typ[types.Bool]
	switch op {
	case "&&":
		return TV{Sc{c.And(x.evalBool(e.Args[0], env), x.evalBool(e.Args[1], env))}, boolT}
	case "||":
		return TV{Sc{c.Or(x.evalBool(e.Args[0], env), x.evalBool(e.Args[1], env))}, boolT}
	case "==>":
		return TV{Sc{c.Implies(x.evalBool(e.Args[0], env), x.evalBool(e.Args[1], env))}, boolT}
	case "<==>":
		return TV{Sc{c.Eq(x.evalBool(e.Args[0], env), x.evalBool(e.Args[1], env))}, boolT}
	}
	a := x.eval(e.Args[0], env)
	b := x.eval(e.Args[1], env)
	// nil comparisons
	if a.V == nil || b.V == nil {
		if a.V == nil {
			a, b = b, a
		}
		var isnil *Term
		switch v := a.V.(type) {
		case PtrV:
			isnil = c.Eq(x.ptrTerm(v), c.Int(0))
		case SliceV:
			isnil = c.Eq(v.Arr, c.Int(0))
		case IfaceV:
			isnil = c.Eq(v.Tag, c.Int(0))
		case Sc:
			isnil = c.Eq(v.T, c.Int(0))
		case FuncV:
			isnil = c.Eq(x.funcTerm(v), c.Int(0))
		default:
			panic(unsupported("nil comparison of %T", a.V))
		}
		if op == "!=" {
			isnil = c.Not(isnil)
		}
		return TV{Sc{isnil}, boolT}
	}
	// float vs untyped literal
	if isFloat(a.T) && !isFloat(b.T) {
		b = x.toFloat(b)
	} else if isFloat(b.T) && !isFloat(a.T) {
		a = x.toFloat(a)
	}
	if isFloat(a.T) {
		fa, fb := x.scalar(a.V), x.scalar(b.V)
		switch op {
		case "+":
			return TV{Sc{c.FOp("fp.add", fa, fb)}, a.T}
		case "-":
			return TV{Sc{c.FOp("fp.sub", fa, fb)}, a.T}
		case "*":
			return TV{Sc{c.FOp("fp.mul", fa, fb)}, a.T}
		case "/":
			return TV{Sc{c.FOp("fp.div", fa, fb)}, a.T}
		case "==":
			return TV{Sc{c.FOp("fp.eq", fa, fb)}, boolT}
		case "!=":
			return TV{Sc{c.Not(c.FOp("fp.eq", fa, fb))}, boolT}
		case "<":
			return TV{Sc{c.FOp("fp.lt", fa, fb)}, boolT}
		case "<=":
			return TV{Sc{c.FOp("fp.leq", fa, fb)}, boolT}
		case ">":
			return TV{Sc{c.FOp("fp.gt", fa, fb)}, boolT}
		case ">=":
			return TV{Sc{c.FOp("fp.geq", fa, fb)}, boolT}
		}
	}
	switch av := a.V.(type) {
	case Sc:
		bt := x.scalar(b.V)
		at := av.T
		if at.sort == SBool {
			switch op {
			case "==":
				return TV{Sc{c.Eq(at, bt)}, boolT}
			case "!=":
				return TV{Sc{c.Neq(at, bt)}, boolT}
			}
		}
		rt := a.T
		if rt == untypedInt {
			rt = b.T
		}
		switch op {
		case "+":
			return TV{Sc{c.Add(at, bt)}, rt}
		case "-":
			return TV{Sc{c.Sub(at, bt)}, rt}
		case "*":
			return TV{Sc{c.Mul(at, bt)}, rt}
		case "/":
			return TV{Sc{c.Quo(at, bt)}, rt}
		case "%":
			return TV{Sc{c.Rem(at, bt)}, rt}
		case "==":
			return TV{Sc{c.Eq(at, bt)}, boolT}
		case "!=":
			return TV{Sc{c.Neq(at, bt)}, boolT}
		case "<":
			return TV{Sc{c.Lt(at, bt)}, boolT}
		case "<=":
			return TV{Sc{c.Le(at, bt)}, boolT}
		case ">":
			return TV{Sc{c.Lt(bt, at)}, boolT}
		case ">=":
			return TV{Sc{c.Le(bt, at)}, boolT}
		case "&", "|", "^", "<<", ">>", "&^":
			tk := map[string]token.Token{"&": token.AND, "|": token.OR, "^": token.XOR, "<<": token.SHL, ">>": token.SHR, "&^": token.AND_NOT}[op]
			return TV{Sc{x.bitop(tk, at, bt, 64, true)}, rt}
		}
	case StrV:
		bv, ok := b.V.(StrV)
		if !ok {
			if sq, ok2 := b.V.(SeqV); ok2 {
				return TV{Sc{x.seqEq(x.seqOf(env.st, av, a.T), sq, op)}, boolT}
			}
			panic(unsupported("string compared with %T", b.V))
		}
		switch op {
		case "==":
			return TV{Sc{x.strEq(av, bv)}, boolT}
		case "!=":
			return TV{Sc{c.Not(x.strEq(av, bv))}, boolT}
		case "<":
			return TV{Sc{x.strLt(av, bv)}, boolT}
		case ">":
			return TV{Sc{x.strLt(bv, av)}, boolT}
		case "<=":
			return TV{Sc{c.Not(x.strLt(bv, av))}, boolT}
		case ">=":
			return TV{Sc{c.Not(x.strLt(av, bv))}, boolT}
		case "+":
			return TV{x.strConcat(env.st, av, bv), a.T}
		}
	case SliceV:
		bv := b.V.(SliceV)
		eq := c.And(c.Eq(av.Arr, bv.Arr), c.Eq(av.Off, bv.Off), c.Eq(av.Len, bv.Len))
		if op == "!=" {
			eq = c.Not(eq)
		}
		return TV{Sc{eq}, boolT}
	case SeqV:
		return TV{Sc{x.seqEq(av, x.seqOf(env.st, b.V, b.T), op)}, boolT}
	case PtrV, IfaceV, FuncV, StructV:
		eq := x.valueEq(a.V, b.V, a.T, b.T)
		if op == "!=" {
			eq = c.Not(eq)
		}
		return TV{Sc{eq}, boolT}
	}
	panic(unsupported("contract operator %s on %T", op, a.V))
}

func (x *Exec) seqEq(a, b SeqV, op string) *Term {
	c := x.c
	parts := []*Term{c.Eq(a.Off, b.Off), c.Eq(a.Len, b.Len)}
	for _, k := range sortedKeys(a.C) {
		parts = append(parts, c.Eq(a.C[k], b.C[k]))
	}
	eq := c.And(parts...)
	if op == "!=" {
		return c.Not(eq)
	}
	return eq
}

func (x *Exec) toFloat(a TV) TV {
	c := x.c
	if v, ok := c.litVal(x.scalar(a.V)); ok {
		f, _ := new(big.Float).SetInt(v).Float64()
		return TV{Sc{c.F64Lit(f)}, types.Typ[types.Float64]}
	}
	t := x.scalar(a.V)
	if c.bv {
		return TV{Sc{c.mk("(_ to_fp 11 53)", SF64, c.mk("RNE", "RoundingMode"), t)}, types.Typ[types.Float64]}
	}
	return TV{Sc{x.intToFloat(t)}, types.Typ[types.Float64]}
}

func (x *Exec) evalQuant(e *CE, env *Env) TV {
	c := x.c
	n := env
	var vars []*Term
	for _, v := range e.Vars {
		t := x.w.resolveType(v.Type, env.pkg)
		val, bvs := x.boundValue(v.Name, t)
		vars = append(vars, bvs...)
		n = n.bind(v.Name, TV{val, t})
	}
	body := x.evalBool(e.Args[0], n)
	// a bound string or slice ranges over well-formed sequences only (length and offset not negative):
	// without this an axiom such as "forall s :: runeCount(s) <= len(s)" is inconsistent at len(s) = -1
	var wf []*Term
	for _, v := range e.Vars {
		if sq, ok := n.names[v.Name].V.(SeqV); ok {
			wf = append(wf, c.Le(c.Int(0), sq.Len), c.Le(c.Int(0), sq.Off))
		}
	}
	if len(wf) > 0 {
		if e.Op == "forall" {
			body = c.Implies(c.And(wf...), body)
		} else {
			body = c.And(append(wf, body)...)
		}
	}
	var pats [][]*Term
	for _, p := range e.Pats {
		if len(p) == 1 {
			// one pattern expression whose value has several leaves (a string or slice element: reference,
			// offset, length): each leaf is a trigger of its own. As one multi-pattern it would fire only
			// where all leaves of the same element occur, which depends on what else is in the query.
			if ts := x.flattenAny(x.eval(p[0], n)); len(ts) > 1 {
				for _, t := range ts {
					pats = append(pats, []*Term{t})
				}
				continue
			}
		}
		var ts []*Term
		for _, pe := range p {
			ts = append(ts, x.flattenAny(x.eval(pe, n))...)
		}
		pats = append(pats, ts)
	}
	if e.Op == "forall" {
		return TV{Sc{c.Forall(vars, body, pats)}, types.Typ[types.Bool]}
	}
	return TV{Sc{c.Exists(vars, body, pats)}, types.Typ[types.Bool]}
}

func (x *Exec) flattenAny(tv TV) []*Term {
	switch v := tv.V.(type) {
	case Sc:
		return []*Term{v.T}
	}
	return x.flatten(tv.V, tv.T)
}

// boundValue creates a bound variable of the given Go type.
func (x *Exec) boundValue(name string, t types.Type) (Value, []*Term) {
	c := x.c
	switch u := t.Underlying().(type) {
	case *types.Slice:
		s := SeqV{C: map[string]*Term{}}
		var vars []*Term
		for _, l := range leavesOf(u.Elem()) {
			s.C[l.suffix] = c.BoundVar(name+l.suffix, ArrSort(SInt, l.sort))
			vars = append(vars, s.C[l.suffix])
		}
		s.Off = c.BoundVar(name+"_off", SInt)
		s.Len = c.BoundVar(name+"_len", SInt)
		return s, append(vars, s.Off, s.Len)
	case *types.Basic:
		if u.Info()&types.IsString != 0 {
			s := SeqV{C: map[string]*Term{"": c.BoundVar(name, ArrSort(SInt, SInt))}}
			s.Off = c.BoundVar(name+"_off", SInt)
			s.Len = c.BoundVar(name+"_len", SInt)
			return s, []*Term{s.C[""], s.Off, s.Len}
		}
	}
	ls := leavesOf(t)
	ts := make([]*Term, len(ls))
	for i, l := range ls {
		ts[i] = c.BoundVar(name+l.suffix, l.sort)
	}
	vars := append([]*Term{}, ts...)
	return x.unflatten(t, &ts), vars
}

func (x *Exec) evalCall(e *CE, env *Env) TV {
	c := x.c
	intT := types.Typ[types.Int]
	boolT := types.Typ[types.Bool]
	f64T := types.Typ[types.Float64]
	arg := func(i int) TV { return x.eval(e.Args[i], env) }
	switch e.Name {
	case "has": // has(m, k): the map m has an entry for key k
		m := arg(0)
		mt, ok := m.T.Underlying().(*types.Map)
		if !ok {
			panic(unsupported("has() of a non-map"))
		}
		kt := x.mapKeyTerm(env.st, mt, arg(1).V)
		_, ph := x.mapPresent(env.st, mt)
		return TV{Sc{c.And(c.Neq(x.scalar(m.V), c.Int(0)), c.Select(c.Select(ph, x.scalar(m.V)), kt))}, boolT}
	case "len":
		a := arg(0)
		switch s := a.V.(type) {
		case SliceV:
			return TV{Sc{s.Len}, intT}
		case StrV:
			return TV{Sc{s.Len}, intT}
		case SeqV:
			return TV{Sc{s.Len}, intT}
		case ArrayV:
			return TV{Sc{c.Int(s.N)}, intT}
		case Sc:
			if mt, ok := a.T.Underlying().(*types.Map); ok {
				return TV{Sc{x.mapLen(env.st, s.T, mt)}, intT}
			}
		}
		panic(unsupported("len of %T", a.V))
	case "cap":
		return TV{Sc{arg(0).V.(SliceV).Cap}, intT}
	case "trunc":
		return TV{Sc{c.FOp("fp.trunc", x.scalar(arg(0).V))}, f64T}
	case "isNaN":
		return TV{Sc{c.FOp("fp.isNaN", x.scalar(arg(0).V))}, boolT}
	case "isInf":
		return TV{Sc{c.FOp("fp.isInfinite", x.scalar(arg(0).V))}, boolT}
	case "float64":
		return x.toFloat(arg(0))
	case "int", "int64":
		a := arg(0)
		if isFloat(a.T) {
			return TV{Sc{x.floatToInt(x.scalar(a.V), types.Typ[types.Int64])}, intT}
		}
		return TV{a.V, intT}
	case "mathint": // mathematical integer value of a float known to be integral and in range
		a := arg(0)
		if c.bv {
			return TV{Sc{c.mk("(_ fp.to_sbv 64)", SInt, c.mk("RTZ", "RoundingMode"), x.scalar(a.V))}, intT}
		}
		return TV{Sc{c.App("f2i", SInt, x.scalar(a.V))}, intT}
	case "min", "max":
		a, b := arg(0), arg(1)
		at, bt := x.scalar(a.V), x.scalar(b.V)
		if e.Name == "min" {
			return TV{Sc{c.Ite(c.Le(at, bt), at, bt)}, a.T}
		}
		return TV{Sc{c.Ite(c.Le(at, bt), bt, at)}, a.T}
	case "ite":
		cond := x.evalBool(e.Args[0], env)
		a, b := arg(1), arg(2)
		if isFloat(a.T) && !isFloat(b.T) {
			b = x.toFloat(b)
		} else if isFloat(b.T) && !isFloat(a.T) {
			a = x.toFloat(a)
		}
		t := a.T
		if t == untypedInt {
			t = b.T
		}
		return TV{x.mergeValue(cond, a.V, b.V), t}
	case "same": // structural identity: every leaf equal (strings: same view; floats: same bits)
		a, b := arg(0), arg(1)
		if isFloat(a.T) && !isFloat(b.T) {
			b = x.toFloat(b)
		} else if isFloat(b.T) && !isFloat(a.T) {
			a = x.toFloat(a)
		}
		t := a.T
		if t == untypedInt || t == types.Typ[types.UntypedNil] {
			t = b.T
		}
		fa, fb := x.flatten(a.V, t), x.flatten(b.V, t)
		var parts []*Term
		for i := range fa {
			parts = append(parts, c.Eq(fa[i], fb[i]))
		}
		return TV{Sc{c.And(parts...)}, boolT}
	case "sameview":
		a, b := arg(0), arg(1)
		switch av := a.V.(type) {
		case StrV:
			bv := b.V.(StrV)
			return TV{Sc{c.And(c.Eq(av.Ref, bv.Ref), c.Eq(av.Off, bv.Off), c.Eq(av.Len, bv.Len))}, boolT}
		case SliceV:
			bv := b.V.(SliceV)
			return TV{Sc{c.And(c.Eq(av.Arr, bv.Arr), c.Eq(av.Off, bv.Off), c.Eq(av.Len, bv.Len))}, boolT}
		}
	case "samearr": // two slices share a backing array
		a, b := arg(0).V.(SliceV), arg(1).V.(SliceV)
		return TV{Sc{c.Eq(a.Arr, b.Arr)}, boolT}
	case "off": // offset of a view in its backing array (ghost)
		switch av := arg(0).V.(type) {
		case StrV:
			return TV{Sc{av.Off}, intT}
		case SliceV:
			return TV{Sc{av.Off}, intT}
		case SeqV:
			return TV{Sc{av.Off}, intT}
		}
	case "seq": // abstract contents of a slice or string
		a := arg(0)
		return TV{x.seqOf(env.st, a.V, a.T), a.T}
	case "typeis": // dynamic type of an interface value
		a := arg(0).V.(IfaceV)
		t := x.w.resolveType(typeTextOf(e.Args[1]), env.pkg)
		return TV{Sc{c.Eq(a.Tag, x.typeID(t))}, boolT}
	case "tagof": // the dynamic type of an interface value as a number (0: nil interface)
		a := arg(0).V.(IfaceV)
		return TV{Sc{a.Tag}, intT}
	case "valof": // the identity of the value an interface holds (with tagof: which interface value it is)
		a := arg(0).V.(IfaceV)
		return TV{Sc{a.Val}, intT}
	case "tagid": // the number of a named type: tagid(T) == tagof(x) iff typeis(x, T)
		if txt := typeTextOf(e.Args[0]); txt == "bytes" { // (the contract grammar has no slice type syntax)
			return TV{Sc{x.typeID(types.NewSlice(types.Typ[types.Uint8]))}, intT}
		}
		t := x.w.resolveType(typeTextOf(e.Args[0]), env.pkg)
		return TV{Sc{x.typeID(t)}, intT}
	case "unbox":
		a := arg(0).V.(IfaceV)
		t := x.w.resolveType(typeTextOf(e.Args[1]), env.pkg)
		return TV{x.unbox(a.Val, t), t}
	case "fresh": // reference allocated during the call / function
		a := arg(0)
		var r *Term
		switch v := a.V.(type) {
		case PtrV:
			r = x.ptrTerm(v)
		case SliceV:
			r = v.Arr
		case Sc:
			r = v.T
		default:
			panic(unsupported("fresh of %T", a.V))
		}
		if env.old == nil {
			panic(unsupported("fresh() needs an old state"))
		}
		return TV{Sc{c.And(c.Le(env.old.allocTop, r), c.Lt(r, env.st.allocTop))}, boolT}
	}
	if p, ok := x.w.cs.preds[e.Name]; ok {
		if len(p.Params) != len(e.Args) {
			panic(unsupported("predicate %s expects %d arguments", p.Name, len(p.Params)))
		}
		n := env
		for i, pr := range p.Params {
			n = n.bind(pr.Name, arg(i))
		}
		nn := *n
		nn.locals = false
		return x.eval(p.Body, &nn)
	}
	if sf, ok := x.w.cs.specs[e.Name]; ok {
		var args []TV
		for i := range e.Args {
			args = append(args, arg(i))
		}
		return x.applySpec(sf, args, env)
	}
	panic(unsupported("unknown function %q in contract", e.Name))
}

func typeTextOf(e *CE) string {
	switch e.Op {
	case "unary":
		return e.Name + typeTextOf(e.Args[0])
	}
	return ceName(e)
}

func (x *Exec) applySpec(sf *SpecFunc, args []TV, env *Env) TV {
	c := x.c
	if len(args) != len(sf.Params) {
		panic(unsupported("spec function %s expects %d arguments", sf.Name, len(sf.Params)))
	}
	var ts []*Term
	for i, a := range args {
		pt := x.w.resolveType(sf.Params[i].Type, env.pkg)
		v := a.V
		if isFloat(pt) && !isFloat(a.T) {
			v = x.toFloat(a).V
		}
		ts = append(ts, x.specArgs(env.st, v, pt)...)
	}
	rt := x.w.resolveType(sf.Ret, env.pkg)
	ls := leavesOf(rt)
	out := make([]*Term, len(ls))
	for i, l := range ls {
		out[i] = c.App("spec_"+sf.Name+l.suffix, l.sort, ts...)
	}
	x.useSpec(sf.Name)
	return TV{x.unflatten(rt, &out), rt}
}

// useSpec instantiates (once) the axioms that mention a spec function.
func (x *Exec) useSpec(name string) {
	if x.ledger["spec:"+name] {
		return
	}
	x.ledger["spec:"+name] = true
	for _, ax := range x.w.cs.axioms {
		uses := map[string]bool{}
		ax.Expr.calls(uses)
		if !uses[name] {
			continue
		}
		if x.ledger["axiom:"+ax.Name] {
			continue
		}
		x.ledger["axiom:"+ax.Name] = true
		env := &Env{x: x, st: x.axiomState(), names: map[string]TV{}}
		t := x.evalBool(ax.Expr, env)
		x.hyps = append(x.hyps, t)
	}
}

func (x *Exec) axiomState() *State {
	return &State{reach: x.c.True(), cells: map[*ssa.Alloc]Value{}, heap: map[string]*Term{}, ghost: map[string]*Term{}, tags: map[string]int{}, allocTop: x.c.Const("allocTop_ax", SInt)}
}

// ---- modifies targets and frames ------------------------------------------------------------------

func (x *Exec) evalAddr(e *CE, env *Env) (PtrV, types.Type) {
	switch e.Op {
	case "paren":
		return x.evalAddr(e.Args[0], env)
	case "sel":
		// address of field
		base := e.Args[0]
		btv := x.eval(base, env)
		t := btv.T
		if pt, ok := t.Underlying().(*types.Pointer); ok {
			st := pt.Elem()
			obj, path, _ := types.LookupFieldOrMethod(st, true, env.pkgOf(st), e.Name)
			fld, ok := obj.(*types.Var)
			if !ok {
				panic(unsupported("no field %s", e.Name))
			}
			return x.fieldPtr(btv.V.(PtrV), st, path), fld.Type()
		}
		// field of a struct l-value
		bp, bt := x.evalAddr(base, env)
		obj, path, _ := types.LookupFieldOrMethod(bt, true, env.pkgOf(bt), e.Name)
		fld, ok := obj.(*types.Var)
		if !ok {
			panic(unsupported("no field %s", e.Name))
		}
		np := bp
		np.Path = append(append([]int{}, bp.Path...), path...)
		return np, fld.Type()
	case "unary":
		if e.Name == "*" {
			tv := x.eval(e.Args[0], env)
			p, ok := tv.V.(PtrV)
			if !ok {
				panic(unsupported("deref of %T", tv.V))
			}
			return p, deref(tv.T)
		}
	case "index":
		tv := x.eval(e.Args[0], env)
		if s, ok := tv.V.(SliceV); ok {
			et := tv.T.Underlying().(*types.Slice).Elem()
			i := x.scalar(x.eval(e.Args[1], env).V)
			return PtrV{Kind: PElem, Base: s.Arr, Idx: x.c.Add(s.Off, i), Elem: et}, et
		}
	case "ident":
		if env.locals && env.fn != nil {
			for _, l := range env.fn.Locals {
				if l.Comment == e.Name {
					return PtrV{Kind: PLocal, Cell: l}, deref(l.Type())
				}
			}
		}
	}
	panic(unsupported("not an addressable contract expression: %s", e))
}

func (x *Exec) targetLocs(m *CE, env *Env) []loc {
	if m.Op == "allelems" {
		tv := x.eval(m.Args[0], env)
		switch s := tv.V.(type) {
		case SliceV:
			et := tv.T.Underlying().(*types.Slice).Elem()
			return []loc{{kind: "elems", base: s.Arr, prefix: "E:" + typeKey(et), typ: et}}
		case Sc:
			if mt, ok := tv.T.Underlying().(*types.Map); ok {
				return []loc{{kind: "map", base: s.T, prefix: "M:" + typeKey(mt), typ: mt}}
			}
		}
		panic(unsupported("[*] on %T", tv.V))
	}
	if m.Op == "call" && m.Name == "global" {
		return []loc{{kind: "prefix", prefix: "G:" + ceName(m.Args[0])}}
	}
	if m.Op == "call" && m.Name == "prefix" {
		return []loc{{kind: "prefix", prefix: m.Args[0].Str}}
	}
	p, t := x.evalAddr(m, env)
	switch p.Kind {
	case PField:
		prefix, _ := fieldPathInfo(p.Struct, p.Path)
		return []loc{{kind: "field", base: p.Base, prefix: "F:" + typeKey(p.Struct) + prefix, typ: t}}
	case PRef:
		if named, _, ok := isNamedStruct(t); ok {
			return []loc{{kind: "field", base: p.Base, prefix: "F:" + typeKey(named), typ: t}}
		}
		return []loc{{kind: "box", base: p.Base, prefix: "B:" + typeKey(t), typ: t}}
	case PElem:
		// a single element: s[i]
		return []loc{{kind: "elem1", base: p.Base, idx: p.Idx, prefix: "E:" + typeKey(p.Elem), typ: p.Elem}}
	case PLocal:
		return []loc{{kind: "cell", cell: p.Cell}}
	case PGlobal:
		return []loc{{kind: "prefix", prefix: "G:" + p.Global.Pkg.Pkg.Name() + "." + p.Global.Name()}}
	}
	panic(unsupported("modifies target %s", m))
}

type frameGoal struct {
	desc string
	goal *Term
}

// frameGoals: for each heap component that differs from the entry heap, every
// pre-existing object not named by the modifies clause is unchanged.
func (x *Exec) frameGoals(st *State, fc *FuncContract) []frameGoal {
	c := x.c
	entry := x.entry
	envE := x.envFor(x.fn, entry, entry, nil)
	var locs []loc
	for _, m := range fc.Modifies {
		locs = append(locs, x.targetLocs(m, envE)...)
	}
	var keys []string
	for k := range st.heap {
		keys = append(keys, k)
	}
	sortStrings(keys)
	var out []frameGoal
	for _, k := range keys {
		cur := st.heap[k]
		was := x.heapGetRaw(entry, k, cur.sort)
		if cur == was {
			continue
		}
		if strings.HasPrefix(k, "G:") {
			excluded := false
			for _, l := range locs {
				if l.kind == "prefix" && keyMatches(k, l.prefix) {
					excluded = true
				}
			}
			if !excluded {
				out = append(out, frameGoal{k + " unchanged", c.Eq(cur, was)})
			}
			continue
		}
		r := c.BoundVar("r", SInt)
		var excl []*Term
		var elem1 []loc
		whole := false
		for _, l := range locs {
			if l.kind == "prefix" && keyMatches(k, l.prefix) {
				whole = true
			}
			if l.kind == "elem1" && keyMatches(k, l.prefix) {
				elem1 = append(elem1, l)
				continue
			}
			if l.base != nil && (keyMatches(k, l.prefix)) {
				excl = append(excl, c.Neq(r, l.base))
			}
		}
		if whole {
			continue
		}
		cond := c.And(append([]*Term{c.Le(c.Int(0), r), c.Lt(r, entry.allocTop)}, excl...)...)
		if len(elem1) > 0 && strings.HasPrefix(k, "E:") {
			// element-wise: every element other than the named single elements is unchanged
			j := c.BoundVar("j", SInt)
			var notNamed []*Term
			for _, l := range elem1 {
				notNamed = append(notNamed, c.Not(c.And(c.Eq(r, l.base), c.Eq(j, l.idx))))
			}
			body := c.Implies(c.And(append([]*Term{cond}, notNamed...)...), c.Eq(c.Select(c.Select(cur, r), j), c.Select(c.Select(was, r), j)))
			out = append(out, frameGoal{k + " unchanged outside the modifies clause", c.Forall([]*Term{r, j}, body, nil)})
			continue
		}
		body := c.Implies(cond, c.Eq(c.Select(cur, r), c.Select(was, r)))
		out = append(out, frameGoal{k + " unchanged outside the modifies clause", c.Forall([]*Term{r}, body, nil)})
	}
	return out
}

func (w *World) modifiesEffects(fc *FuncContract, eff *Effects) {
	// type-level over-approximation of a modifies clause, used for loop havoc
	for _, m := range fc.Modifies {
		if p := w.targetPrefix(fc, m); p != "" {
			eff.write(p)
		} else {
			eff.all = true
		}
	}
}

func (x *Exec) String() string { return fmt.Sprintf("exec(%s)", x.fn) }
