package main

// Contract language: parsing of //@ comment files and .vspec files.

import (
	"fmt"
	"os"
	"path/filepath"
	"regexp"
	"sort"
	"strconv"
	"strings"
)

// CE is a contract expression node.
type CE struct {
	Op   string // ident, int, float, char, string, bool, nil, sel, index, slice, call, unary, binary, forall, exists, old, iter, ite
	Name string // identifier / field / operator / function
	Args []*CE
	Int  string
	Str  string
	// quantifiers
	Vars  []QVar
	Pats  [][]*CE
	Pos   string
	Types []string // for typed calls
}

type QVar struct {
	Name string
	Type string
}

type Clause struct {
	Expr  *CE
	Props []string
	Text  string
	Where string
	Def   bool // definitional (assumed, not proved)
	Hidden bool // proved in the body, not assumed at call sites
}

type Callback struct {
	Pure bool
}

type FuncContract struct {
	Name          string
	Pkg           string
	Ints          string
	Requires      []Clause
	Ensures       []Clause
	Modifies      []*CE
	ModifiesGiven bool
	ModProps      []string
	LoopInv       map[int][]Clause
	InlineLoopInv map[string][]Clause // "callee#n": extra invariants for loop n of an inlined callee, in this function only
	PanicsWhen    []Clause
	MayPanic      bool
	Pure          bool
	Func          bool // pure and deterministic: result is a function of the arguments
	Trusted       bool
	Inline        bool
	NoInline      bool
	AssertAfterStore map[string][]Clause // field (T.f) -> assertions proved after every assignment to it
	NameMerges    bool // merged heap arrays get a name and a defining equation at every join (see mergeStates)
	FreshFrames   bool // calls keep the contents of existing objects in components the callee only initialises (see Effects.soft)
	Allocates     bool
	Callbacks     map[string]*Callback
	ParamNames    []string
	RecvName      string
	Props         []string
	Where         string
	NoOverflow    bool // skip overflow obligations
	Asserts       map[int][]Clause
	Used          bool
	CallPreserves map[string][]Clause // callee short name -> predicates preserved by the function values passed to it
	SafetyProps    []string
	LoopStep       map[int][]Clause
	AssumeRequires map[string]string  // callee short name -> assumption name
	AssumeKinds    map[string]string  // obligation kind -> assumption name
	Ghosts         []*GhostDecl
}

// GhostDecl: a ghost variable of one function under contract, maintained by the engine: initialised
// at entry, havoced at loop heads (loop invariants may constrain it), updated after calls of the
// named callees. It exists only in the verification conditions.
type GhostDecl struct {
	Name string
	Init *CE
	On   map[string]*CE // callee short name -> new value
}

type SpecFunc struct {
	Name   string
	Params []QVar
	Ret    string
	Body   *CE // nil: uninterpreted
}

type Pred struct {
	Name   string
	Params []QVar
	Body   *CE
	Text   string
}

type Axiom struct {
	Name string
	Expr *CE
	Text string
	Uses []string // spec functions mentioned: instantiated only when one is used
}

type Lemma struct {
	Name  string
	Props []string
	Expr  *CE
	Text  string
	Ints  string
	Where string
}

// Classified: the complete field list of a struct type (continuation lines allowed).
type Classified struct {
	Type   string
	Fields []string
	Props  []string
	Where  string
}

type Contracts struct {
	funcs  map[string]*FuncContract
	specs  map[string]*SpecFunc
	preds  map[string]*Pred
	axioms []*Axiom
	lemmas []*Lemma
	classified []*Classified
	sinks      []*SinkSpec
	frames     []*FrameSpec
	orders     []*OrderSpec
	boundeds   []*BoundedSpec
	positions  []*PositionsSpec
	files  []string
}

func newContracts() *Contracts {
	return &Contracts{funcs: map[string]*FuncContract{}, specs: map[string]*SpecFunc{}, preds: map[string]*Pred{}}
}

var clauseRe = regexp.MustCompile(`^([a-z][a-z-]*)(?:\[([A-Za-z0-9_, ]+)\])?(?:\s+(.*))?$`)

func (cs *Contracts) loadFile(path string, pkgName string, commentPrefix bool) error {
	data, err := os.ReadFile(path)
	if err != nil {
		return err
	}
	cs.files = append(cs.files, path)
	var lines []string
	var lineNos []int
	raw := strings.Split(string(data), "\n")
	for n, l := range raw {
		l = strings.TrimRight(l, " \t\r")
		if commentPrefix {
			t := strings.TrimSpace(l)
			if !strings.HasPrefix(t, "//@") {
				continue
			}
			l = strings.TrimPrefix(t, "//@")
		}
		if i := strings.Index(l, " //"); i >= 0 && !strings.Contains(l[i:], "\"") && !strings.Contains(l[i:], "'") {
			l = l[:i]
		}
		if strings.HasPrefix(strings.TrimSpace(l), "#") {
			continue
		}
		if strings.TrimSpace(l) == "" {
			continue
		}
		// continuation
		if len(lines) > 0 && strings.HasSuffix(lines[len(lines)-1], "\\") {
			lines[len(lines)-1] = strings.TrimSuffix(lines[len(lines)-1], "\\") + " " + strings.TrimSpace(l)
			continue
		}
		lines = append(lines, strings.TrimSpace(l))
		lineNos = append(lineNos, n+1)
	}
	var cur *FuncContract
	for li, l := range lines {
		where := fmt.Sprintf("%s:%d", path, lineNos[li])
		m := clauseRe.FindStringSubmatch(l)
		if m == nil {
			return fmt.Errorf("%s: cannot parse contract line %q", where, l)
		}
		kw, propsS, rest := m[1], m[2], strings.TrimSpace(m[3])
		var props []string
		for _, p := range strings.Split(propsS, ",") {
			if p = strings.TrimSpace(p); p != "" {
				props = append(props, p)
			}
		}
		perr := func(err error) error { return fmt.Errorf("%s: %v (in %q)", where, err, l) }
		switch kw {
		case "func":
			name := rest
			if pkgName != "" {
				switch {
				case strings.HasPrefix(name, "(*"):
					if j := strings.Index(name, ")"); j > 0 && !strings.Contains(name[:j], ".") {
						name = "(*" + pkgName + "." + name[2:]
					}
				case strings.HasPrefix(name, "("):
					if j := strings.Index(name, ")"); j > 0 && !strings.Contains(name[:j], ".") {
						name = "(" + pkgName + "." + name[1:]
					}
				case strings.HasPrefix(name, "iface "):
				case !strings.Contains(name, "."):
					name = pkgName + "." + name
				}
			}
			if old, ok := cs.funcs[name]; ok {
				cur = old
			} else {
				cur = &FuncContract{Name: name, Pkg: pkgName, LoopInv: map[int][]Clause{}, Callbacks: map[string]*Callback{}, Asserts: map[int][]Clause{}, CallPreserves: map[string][]Clause{}, Where: where}
				cs.funcs[name] = cur
			}
			cur.Props = append(cur.Props, props...)
		case "sinks":
			sp, err := parseSinkSpec(rest, props, where)
			if err != nil {
				return perr(err)
			}
			cs.sinks = append(cs.sinks, sp)
			cur = nil
		case "frame":
			sp, err := parseFrameSpec(rest, props, where)
			if err != nil {
				return perr(err)
			}
			cs.frames = append(cs.frames, sp)
			cur = nil
		case "positions":
			sp, err := parsePositionsSpec(rest, props, where)
			if err != nil {
				return perr(err)
			}
			cs.positions = append(cs.positions, sp)
			cur = nil
		case "bounded":
			sp, err := parseBoundedSpec(rest, props, where)
			if err != nil {
				return perr(err)
			}
			cs.boundeds = append(cs.boundeds, sp)
			cur = nil
		case "ordered":
			sp, err := parseOrderSpec(rest, props, where)
			if err != nil {
				return perr(err)
			}
			cs.orders = append(cs.orders, sp)
			cur = nil
		case "classified":
			// classified[Cnn] <pkg.Type>: f1 f2 ... -- every field of the struct, each one accounted for
			// by the contracts; a field added to (or removed from) the struct fails the check
			i := strings.Index(rest, ":")
			if i < 0 {
				return perr(fmt.Errorf("expected: classified <type>: <fields>"))
			}
			tn := strings.TrimSpace(rest[:i])
			if pkgName != "" && !strings.Contains(tn, ".") {
				tn = pkgName + "." + tn
			}
			cs.classified = append(cs.classified, &Classified{Type: tn, Fields: strings.Fields(strings.ReplaceAll(rest[i+1:], ",", " ")), Props: props, Where: where})
			cur = nil
		case "spec":
			sf, err := parseSpecDecl(rest)
			if err != nil {
				return perr(err)
			}
			cs.specs[sf.Name] = sf
			cur = nil
		case "pred":
			i := strings.Index(rest, ":=")
			if i < 0 {
				return perr(fmt.Errorf("pred needs :="))
			}
			sf, err := parseSpecDecl(strings.TrimSpace(rest[:i]) + " bool")
			if err != nil {
				return perr(err)
			}
			body, err := parseCE(rest[i+2:])
			if err != nil {
				return perr(err)
			}
			cs.preds[sf.Name] = &Pred{Name: sf.Name, Params: sf.Params, Body: body, Text: rest}
			cur = nil
		case "axiom":
			i := strings.Index(rest, ":")
			if i < 0 {
				return perr(fmt.Errorf("axiom needs name:"))
			}
			e, err := parseCE(rest[i+1:])
			if err != nil {
				return perr(err)
			}
			ax := &Axiom{Name: strings.TrimSpace(rest[:i]), Expr: e, Text: rest}
			cs.axioms = append(cs.axioms, ax)
			cur = nil
		case "lemma":
			i := strings.Index(rest, ":")
			if i < 0 {
				return perr(fmt.Errorf("lemma needs name:"))
			}
			e, err := parseCE(rest[i+1:])
			if err != nil {
				return perr(err)
			}
			name := strings.TrimSpace(rest[:i])
			ints := ""
			if strings.HasSuffix(name, " bv64") {
				ints = "bv64"
				name = strings.TrimSuffix(name, " bv64")
			}
			cs.lemmas = append(cs.lemmas, &Lemma{Name: name, Props: props, Expr: e, Text: rest, Ints: ints, Where: where})
			cur = nil
		default:
			if cur == nil {
				return perr(fmt.Errorf("clause %q outside func block", kw))
			}
			if len(props) == 0 {
				props = cur.Props
			}
			switch kw {
			case "ints":
				cur.Ints = rest
			case "requires", "ensures", "panics-when", "defines", "proves":
				e, err := parseCE(rest)
				if err != nil {
					return perr(err)
				}
				cl := Clause{Expr: e, Props: props, Text: rest, Where: where}
				switch kw {
				case "requires":
					cur.Requires = append(cur.Requires, cl)
				case "ensures":
					cur.Ensures = append(cur.Ensures, cl)
				case "proves":
					// postcondition proved in the body but not revealed at call sites
					cl.Hidden = true
					cur.Ensures = append(cur.Ensures, cl)
				case "defines":
					// definitional postcondition: introduces spec functions as names for this
					// function's results; assumed at call sites, not proved in the body
					cl.Def = true
					cur.Ensures = append(cur.Ensures, cl)
				default:
					cur.PanicsWhen = append(cur.PanicsWhen, cl)
				}
			case "modifies":
				cur.ModifiesGiven = true
				cur.ModProps = props
				if rest != "nothing" {
					for _, part := range splitTop(rest) {
						e, err := parseCE(part)
						if err != nil {
							return perr(err)
						}
						cur.Modifies = append(cur.Modifies, e)
					}
				}
			case "loop", "assert":
				f := strings.Fields(rest)
				if kw == "assert" {
					// assert after-store <T.f> <expr>
					if len(f) < 3 || f[0] != "after-store" {
						return perr(fmt.Errorf("expected: assert after-store <T.f> <expr>"))
					}
					text := strings.TrimSpace(rest[strings.Index(rest, f[1])+len(f[1]):])
					e, err := parseCE(text)
					if err != nil {
						return perr(err)
					}
					if cur.AssertAfterStore == nil {
						cur.AssertAfterStore = map[string][]Clause{}
					}
					cur.AssertAfterStore[f[1]] = append(cur.AssertAfterStore[f[1]], Clause{Expr: e, Props: props, Text: text, Where: where})
				}
				if kw == "loop" {
					if len(f) < 3 || (f[1] != "invariant" && f[1] != "step") {
						return perr(fmt.Errorf("expected: loop <n> invariant|step <expr>"))
					}
					n, err := strconv.Atoi(f[0])
					if err != nil {
						return perr(err)
					}
					isStep := f[1] == "step"
					text := strings.TrimSpace(strings.TrimPrefix(strings.TrimSpace(strings.TrimPrefix(rest, f[0])), f[1]))
					// allow props after "invariant"
					if strings.HasPrefix(text, "[") {
						j := strings.Index(text, "]")
						props = nil
						for _, p := range strings.Split(text[1:j], ",") {
							props = append(props, strings.TrimSpace(p))
						}
						text = strings.TrimSpace(text[j+1:])
					}
					e, err := parseCE(text)
					if err != nil {
						return perr(err)
					}
					if isStep {
						// a step clause relates the state at the end of one iteration to the state at its
						// start (iter(...)); it is proved on every back edge and never assumed
						if cur.LoopStep == nil {
							cur.LoopStep = map[int][]Clause{}
						}
						cur.LoopStep[n] = append(cur.LoopStep[n], Clause{Expr: e, Props: props, Text: text, Where: where})
					} else {
						cur.LoopInv[n] = append(cur.LoopInv[n], Clause{Expr: e, Props: props, Text: text, Where: where})
					}
				}
			case "inline-loop":
				// inline-loop <callee> <n> invariant <expr>: an invariant of loop n of the inlined callee
				// (short name) that holds in this function's use of it; evaluated over the callee's locals
				f := strings.Fields(rest)
				if len(f) < 4 || f[2] != "invariant" {
					return perr(fmt.Errorf("expected: inline-loop <callee> <n> invariant <expr>"))
				}
				if _, err := strconv.Atoi(f[1]); err != nil {
					return perr(err)
				}
				text := strings.TrimSpace(rest[strings.Index(rest, " invariant ")+len(" invariant "):])
				e, err := parseCE(text)
				if err != nil {
					return perr(err)
				}
				if cur.InlineLoopInv == nil {
					cur.InlineLoopInv = map[string][]Clause{}
				}
				cur.InlineLoopInv[f[0]+"#"+f[1]] = append(cur.InlineLoopInv[f[0]+"#"+f[1]], Clause{Expr: e, Props: props, Text: text, Where: where})
			case "ghost":
				// ghost <name> = <init expr>            declares a ghost variable of the function (Int or Bool)
				// ghost <name> on <callee> := <expr>    its new value after every call of <callee> (short name);
				//                                       <expr> may mention result, the ghost itself and the state after the call
				f := strings.Fields(rest)
				if len(f) >= 3 && f[1] == "=" {
					text := strings.TrimSpace(strings.TrimPrefix(strings.TrimSpace(strings.TrimPrefix(rest, f[0])), "="))
					e, err := parseCE(text)
					if err != nil {
						return perr(err)
					}
					cur.Ghosts = append(cur.Ghosts, &GhostDecl{Name: f[0], Init: e, On: map[string]*CE{}})
				} else if len(f) >= 5 && f[1] == "on" && f[3] == ":=" {
					var g *GhostDecl
					for _, d := range cur.Ghosts {
						if d.Name == f[0] {
							g = d
						}
					}
					if g == nil {
						return perr(fmt.Errorf("ghost %s updated before it is declared", f[0]))
					}
					text := strings.TrimSpace(rest[strings.Index(rest, ":=")+2:])
					e, err := parseCE(text)
					if err != nil {
						return perr(err)
					}
					g.On[f[2]] = e
				} else {
					return perr(fmt.Errorf("expected: ghost <name> = <expr> | ghost <name> on <callee> := <expr>"))
				}
			case "call":
				f := strings.Fields(rest)
				if len(f) < 3 || f[1] != "preserves" {
					return perr(fmt.Errorf("expected: call <callee> preserves <expr>"))
				}
				text := strings.TrimSpace(strings.TrimPrefix(strings.TrimSpace(strings.TrimPrefix(rest, f[0])), "preserves"))
				e, err := parseCE(text)
				if err != nil {
					return perr(err)
				}
				cur.CallPreserves[f[0]] = append(cur.CallPreserves[f[0]], Clause{Expr: e, Props: props, Text: text, Where: where})
			case "pure":
				cur.Pure = true
				cur.ModifiesGiven = true
				if rest == "func" {
					cur.Func = true
				}
			case "trusted":
				cur.Trusted = true
			case "inline":
				cur.Inline = true
			case "noinline":
				cur.NoInline = true
			case "merge-names":
				cur.NameMerges = true
			case "fresh-frames":
				cur.FreshFrames = true
			case "assume-requires":
				// named assumption: the preconditions of these callees are assumed (not proved) at
				// their call sites in this function; every use is listed in the evidence ledger
				f := strings.Fields(rest)
				if len(f) < 2 {
					return perr(fmt.Errorf("expected: assume-requires <ASSUMPTION-NAME> <callee>..."))
				}
				if cur.AssumeRequires == nil {
					cur.AssumeRequires = map[string]string{}
				}
				for _, callee := range f[1:] {
					cur.AssumeRequires[strings.TrimSuffix(callee, ",")] = f[0]
				}
			case "assume-safety":
				// named assumption: obligations of the given kinds are assumed in this function
				f := strings.Fields(rest)
				if len(f) < 2 {
					return perr(fmt.Errorf("expected: assume-safety <ASSUMPTION-NAME> <kind>..."))
				}
				if cur.AssumeKinds == nil {
					cur.AssumeKinds = map[string]string{}
				}
				for _, k := range f[1:] {
					cur.AssumeKinds[strings.TrimSuffix(k, ",")] = f[0]
				}
			case "safety-props":
				// properties that the zero-annotation safety obligations of this function count for
				cur.SafetyProps = nil
				for _, p := range strings.Split(rest, ",") {
					cur.SafetyProps = append(cur.SafetyProps, strings.TrimSpace(p))
				}
			case "may-panic":
				cur.MayPanic = true
			case "no-overflow-check":
				cur.NoOverflow = true
			case "callback":
				f := strings.Fields(rest)
				if len(f) != 2 {
					return perr(fmt.Errorf("expected: callback <param> pure|havoc"))
				}
				cur.Callbacks[f[0]] = &Callback{Pure: f[1] == "pure"}
			case "params":
				for _, p := range strings.Split(rest, ",") {
					cur.ParamNames = append(cur.ParamNames, strings.TrimSpace(p))
				}
			case "recv":
				cur.RecvName = rest
			default:
				return perr(fmt.Errorf("unknown clause %q", kw))
			}
		}
	}
	return nil
}

func splitTop(s string) []string {
	var out []string
	depth := 0
	start := 0
	for i, r := range s {
		switch r {
		case '(', '[':
			depth++
		case ')', ']':
			depth--
		case ',':
			if depth == 0 {
				out = append(out, strings.TrimSpace(s[start:i]))
				start = i + 1
			}
		}
	}
	out = append(out, strings.TrimSpace(s[start:]))
	return out
}

func parseSpecDecl(s string) (*SpecFunc, error) {
	i := strings.Index(s, "(")
	j := strings.LastIndex(s, ")")
	if i < 0 || j < i {
		return nil, fmt.Errorf("bad spec declaration %q", s)
	}
	sf := &SpecFunc{Name: strings.TrimSpace(s[:i]), Ret: strings.TrimSpace(s[j+1:])}
	ps := strings.TrimSpace(s[i+1 : j])
	if ps != "" {
		for _, p := range splitTop(ps) {
			f := strings.SplitN(strings.TrimSpace(p), " ", 2)
			if len(f) != 2 {
				return nil, fmt.Errorf("bad parameter %q", p)
			}
			sf.Params = append(sf.Params, QVar{f[0], strings.TrimSpace(f[1])})
		}
	}
	return sf, nil
}

func (cs *Contracts) loadDir(dir string) error {
	files, _ := filepath.Glob(filepath.Join(dir, "*.vspec"))
	sort.Strings(files)
	for _, f := range files {
		if err := cs.loadFile(f, "", false); err != nil {
			return err
		}
	}
	return nil
}

// ---- expression parser ----------------------------------------------------------------------

type tok struct {
	kind string // id, int, float, char, str, op, eof
	s    string
}

func lexCE(s string) ([]tok, error) {
	var out []tok
	i := 0
	for i < len(s) {
		ch := s[i]
		switch {
		case ch == ' ' || ch == '\t':
			i++
		case ch >= '0' && ch <= '9':
			j := i
			isF := false
			if strings.HasPrefix(s[i:], "0x") {
				j = i + 2
				for j < len(s) && strings.ContainsRune("0123456789abcdefABCDEF", rune(s[j])) {
					j++
				}
			} else {
				for j < len(s) && (s[j] >= '0' && s[j] <= '9' || s[j] == '.' && j+1 < len(s) && s[j+1] != '.' || s[j] == 'e' && isF) {
					if s[j] == '.' {
						isF = true
					}
					j++
				}
			}
			if isF {
				out = append(out, tok{"float", s[i:j]})
			} else {
				out = append(out, tok{"int", s[i:j]})
			}
			i = j
		case ch == '_' || ch >= 'a' && ch <= 'z' || ch >= 'A' && ch <= 'Z':
			j := i
			for j < len(s) && (s[j] == '_' || s[j] >= 'a' && s[j] <= 'z' || s[j] >= 'A' && s[j] <= 'Z' || s[j] >= '0' && s[j] <= '9') {
				j++
			}
			out = append(out, tok{"id", s[i:j]})
			i = j
		case ch == '\'':
			j := i + 1
			for j < len(s) && s[j] != '\'' {
				if s[j] == '\\' {
					j++
				}
				j++
			}
			if j >= len(s) {
				return nil, fmt.Errorf("unterminated char literal")
			}
			r, _, _, err := strconv.UnquoteChar(s[i+1:j], '\'')
			if err != nil {
				return nil, err
			}
			out = append(out, tok{"int", strconv.Itoa(int(r))})
			i = j + 1
		case ch == '"':
			j := i + 1
			for j < len(s) && s[j] != '"' {
				if s[j] == '\\' {
					j++
				}
				j++
			}
			if j >= len(s) {
				return nil, fmt.Errorf("unterminated string literal")
			}
			str, err := strconv.Unquote(s[i : j+1])
			if err != nil {
				return nil, err
			}
			out = append(out, tok{"str", str})
			i = j + 1
		default:
			ops := []string{"<==>", "==>", "::", "..", "==", "!=", "<=", ">=", "&&", "||", "<<", ">>", "&^"}
			matched := false
			for _, op := range ops {
				if strings.HasPrefix(s[i:], op) {
					out = append(out, tok{"op", op})
					i += len(op)
					matched = true
					break
				}
			}
			if !matched {
				out = append(out, tok{"op", string(ch)})
				i++
			}
		}
	}
	out = append(out, tok{"eof", ""})
	return out, nil
}

type ceParser struct {
	toks []tok
	p    int
}

func parseCE(s string) (e *CE, err error) {
	toks, err := lexCE(strings.TrimSpace(s))
	if err != nil {
		return nil, err
	}
	ps := &ceParser{toks: toks}
	defer func() {
		if r := recover(); r != nil {
			if pe, ok := r.(parseErr); ok {
				err = fmt.Errorf("%s", string(pe))
				return
			}
			panic(r)
		}
	}()
	e = ps.expr()
	if ps.peek().kind != "eof" {
		return nil, fmt.Errorf("unexpected %q after expression", ps.peek().s)
	}
	return e, nil
}

type parseErr string

func (p *ceParser) peek() tok { return p.toks[p.p] }
func (p *ceParser) next() tok { t := p.toks[p.p]; p.p++; return t }
func (p *ceParser) isOp(s string) bool {
	return p.peek().kind == "op" && p.peek().s == s
}
func (p *ceParser) expect(s string) {
	if !p.isOp(s) {
		panic(parseErr(fmt.Sprintf("expected %q, found %q", s, p.peek().s)))
	}
	p.next()
}

func (p *ceParser) expr() *CE {
	if p.peek().kind == "id" && (p.peek().s == "forall" || p.peek().s == "exists") {
		return p.quant()
	}
	return p.iff()
}

// forall k int, j int {pat, pat} {pat} :: body
func (p *ceParser) quant() *CE {
	kind := p.next().s
	e := &CE{Op: kind}
	for {
		name := p.next()
		if name.kind != "id" {
			panic(parseErr("quantifier: expected variable name"))
		}
		typ := p.typeText()
		e.Vars = append(e.Vars, QVar{name.s, typ})
		if p.isOp(",") {
			p.next()
			continue
		}
		break
	}
	for p.isOp("{") {
		p.next()
		var pat []*CE
		for {
			pat = append(pat, p.iff())
			if p.isOp(",") {
				p.next()
				continue
			}
			break
		}
		p.expect("}")
		e.Pats = append(e.Pats, pat)
	}
	p.expect("::")
	e.Args = []*CE{p.expr()}
	return e
}

// typeText reads a type: [] * ident . ident
func (p *ceParser) typeText() string {
	var sb strings.Builder
	for {
		t := p.peek()
		if t.kind == "op" && (t.s == "[" || t.s == "]" || t.s == "*" || t.s == ".") {
			sb.WriteString(t.s)
			p.next()
			continue
		}
		if t.kind == "id" {
			sb.WriteString(t.s)
			p.next()
			if p.isOp(".") {
				continue
			}
			break
		}
		break
	}
	return sb.String()
}

func (p *ceParser) iff() *CE {
	l := p.implies()
	for p.isOp("<==>") {
		p.next()
		r := p.implies()
		l = &CE{Op: "binary", Name: "<==>", Args: []*CE{l, r}}
	}
	return l
}

func (p *ceParser) implies() *CE {
	l := p.or()
	if p.isOp("==>") {
		p.next()
		var r *CE
		if p.peek().kind == "id" && (p.peek().s == "forall" || p.peek().s == "exists") {
			r = p.quant()
		} else {
			r = p.implies()
		}
		return &CE{Op: "binary", Name: "==>", Args: []*CE{l, r}}
	}
	return l
}

func (p *ceParser) or() *CE {
	l := p.and()
	for p.isOp("||") {
		p.next()
		l = &CE{Op: "binary", Name: "||", Args: []*CE{l, p.and()}}
	}
	return l
}

func (p *ceParser) and() *CE {
	l := p.cmp()
	for p.isOp("&&") {
		p.next()
		var r *CE
		if p.peek().kind == "id" && (p.peek().s == "forall" || p.peek().s == "exists") {
			r = p.quant()
		} else {
			r = p.cmp()
		}
		l = &CE{Op: "binary", Name: "&&", Args: []*CE{l, r}}
	}
	return l
}

func (p *ceParser) cmp() *CE {
	l := p.add()
	// chained comparisons a <= b < c
	var res *CE
	for {
		t := p.peek()
		if t.kind == "op" && (t.s == "==" || t.s == "!=" || t.s == "<" || t.s == "<=" || t.s == ">" || t.s == ">=") {
			p.next()
			r := p.add()
			c := &CE{Op: "binary", Name: t.s, Args: []*CE{l, r}}
			if res == nil {
				res = c
			} else {
				res = &CE{Op: "binary", Name: "&&", Args: []*CE{res, c}}
			}
			l = r
			continue
		}
		break
	}
	if res != nil {
		return res
	}
	return l
}

func (p *ceParser) add() *CE {
	l := p.mul()
	for {
		t := p.peek()
		if t.kind == "op" && (t.s == "+" || t.s == "-" || t.s == "|" || t.s == "^") {
			p.next()
			l = &CE{Op: "binary", Name: t.s, Args: []*CE{l, p.mul()}}
			continue
		}
		return l
	}
}

func (p *ceParser) mul() *CE {
	l := p.unary()
	for {
		t := p.peek()
		if t.kind == "op" && (t.s == "*" || t.s == "/" || t.s == "%" || t.s == "&" || t.s == "<<" || t.s == ">>" || t.s == "&^") {
			p.next()
			l = &CE{Op: "binary", Name: t.s, Args: []*CE{l, p.unary()}}
			continue
		}
		return l
	}
}

func (p *ceParser) unary() *CE {
	t := p.peek()
	if t.kind == "op" && (t.s == "!" || t.s == "-" || t.s == "*") {
		p.next()
		return &CE{Op: "unary", Name: t.s, Args: []*CE{p.unary()}}
	}
	return p.postfix()
}

func (p *ceParser) postfix() *CE {
	e := p.primary()
	for {
		switch {
		case p.isOp("."):
			p.next()
			n := p.next()
			if n.kind != "id" {
				panic(parseErr("expected field name after '.'"))
			}
			e = &CE{Op: "sel", Name: n.s, Args: []*CE{e}}
		case p.isOp("["):
			p.next()
			if p.isOp("*") {
				p.next()
				p.expect("]")
				e = &CE{Op: "allelems", Args: []*CE{e}}
				continue
			}
			var lo, hi *CE
			if !p.isOp(":") {
				lo = p.expr()
			}
			if p.isOp(":") {
				p.next()
				if !p.isOp("]") {
					hi = p.expr()
				}
				p.expect("]")
				e = &CE{Op: "slice", Args: []*CE{e, lo, hi}}
			} else {
				p.expect("]")
				e = &CE{Op: "index", Args: []*CE{e, lo}}
			}
		case p.isOp("("):
			p.next()
			var args []*CE
			for !p.isOp(")") {
				args = append(args, p.expr())
				if p.isOp(",") {
					p.next()
				}
			}
			p.expect(")")
			name := ceName(e)
			if name == "" {
				panic(parseErr("call of non-name"))
			}
			switch name {
			case "old":
				e = &CE{Op: "old", Args: args}
			case "iter":
				e = &CE{Op: "iter", Args: args}
			case "pre":
				e = &CE{Op: "pre", Args: args}
			default:
				e = &CE{Op: "call", Name: name, Args: args}
			}
		default:
			return e
		}
	}
}

func ceName(e *CE) string {
	switch e.Op {
	case "ident":
		return e.Name
	case "sel":
		b := ceName(e.Args[0])
		if b == "" {
			return ""
		}
		return b + "." + e.Name
	}
	return ""
}

func (p *ceParser) primary() *CE {
	t := p.next()
	switch t.kind {
	case "int":
		return &CE{Op: "int", Int: t.s}
	case "float":
		return &CE{Op: "float", Str: t.s}
	case "str":
		return &CE{Op: "string", Str: t.s}
	case "id":
		switch t.s {
		case "true", "false":
			return &CE{Op: "bool", Name: t.s}
		case "nil":
			return &CE{Op: "nil"}
		}
		return &CE{Op: "ident", Name: t.s}
	case "op":
		if t.s == "(" {
			e := p.expr()
			p.expect(")")
			return &CE{Op: "paren", Args: []*CE{e}}
		}
	}
	panic(parseErr(fmt.Sprintf("unexpected token %q", t.s)))
}

func (e *CE) String() string {
	if e == nil {
		return ""
	}
	switch e.Op {
	case "ident":
		return e.Name
	case "int":
		return e.Int
	case "float":
		return e.Str
	case "string":
		return strconv.Quote(e.Str)
	case "bool":
		return e.Name
	case "nil":
		return "nil"
	case "sel":
		return e.Args[0].String() + "." + e.Name
	case "index":
		return e.Args[0].String() + "[" + e.Args[1].String() + "]"
	case "allelems":
		return e.Args[0].String() + "[*]"
	case "slice":
		return e.Args[0].String() + "[" + e.Args[1].String() + ":" + e.Args[2].String() + "]"
	case "call", "old", "iter", "pre":
		n := e.Name
		if e.Op != "call" {
			n = e.Op
		}
		var as []string
		for _, a := range e.Args {
			as = append(as, a.String())
		}
		return n + "(" + strings.Join(as, ", ") + ")"
	case "unary":
		return e.Name + e.Args[0].String()
	case "binary":
		return "(" + e.Args[0].String() + " " + e.Name + " " + e.Args[1].String() + ")"
	case "paren":
		return "(" + e.Args[0].String() + ")"
	case "forall", "exists":
		var vs []string
		for _, v := range e.Vars {
			vs = append(vs, v.Name+" "+v.Type)
		}
		return e.Op + " " + strings.Join(vs, ", ") + " :: " + e.Args[0].String()
	}
	return "?" + e.Op
}

// mentions reports the call names used in an expression.
func (e *CE) calls(out map[string]bool) {
	if e == nil {
		return
	}
	if e.Op == "call" {
		out[e.Name] = true
	}
	for _, a := range e.Args {
		a.calls(out)
	}
	for _, p := range e.Pats {
		for _, x := range p {
			x.calls(out)
		}
	}
}
