package main

import (
	"flag"
	"fmt"
	"os"
	"path/filepath"
	"sort"
	"strings"
	"time"

	"golang.org/x/tools/go/ssa"
)

func main() {
	if len(os.Args) < 2 {
		fmt.Fprintln(os.Stderr, "usage: govc check <property> [flags] | govc dump <func>")
		os.Exit(2)
	}
	switch os.Args[1] {
	case "check":
		os.Exit(cmdCheck(os.Args[2:]))
	case "dump":
		os.Exit(cmdDump(os.Args[2:]))
	case "effects":
		// govc effects <func> [substring]: the may-write summary of a function (development aid)
		w, err := loadWorld("/repo", "/verif/spec")
		if err != nil {
			fmt.Fprintln(os.Stderr, err)
			os.Exit(2)
		}
		fn := w.lookupFunc(os.Args[2])
		if fn == nil {
			fmt.Println("no such function")
			os.Exit(2)
		}
		eff := w.funcEffects(fn)
		var ps []string
		for p := range eff.prefixes {
			if len(os.Args) < 4 || strings.Contains(p, os.Args[3]) {
				ps = append(ps, p)
			}
		}
		sort.Strings(ps)
		fmt.Printf("all=%v allocs=%v %d components\n%s\n", eff.all, eff.allocs, len(eff.prefixes), strings.Join(ps, "\n"))
		if len(os.Args) >= 5 {
			// who introduces the component: direct writers among the transitive callees
			seen := map[*ssa.Function]bool{}
			var walk func(f *ssa.Function, path []string)
			walk = func(f *ssa.Function, path []string) {
				if seen[f] || len(path) > 12 {
					return
				}
				seen[f] = true
				info := w.effInfos[f]
				if info == nil {
					return
				}
				if info.direct.prefixes[os.Args[4]] {
					fmt.Println("WRITER:", strings.Join(append(path, funcKey(f)), " -> "))
				}
				for c := range info.callees {
					walk(c, append(path, funcKey(f)))
				}
			}
			walk(fn, nil)
		}
		os.Exit(0)
	default:
		fmt.Fprintln(os.Stderr, "unknown command", os.Args[1])
		os.Exit(2)
	}
}

func cmdDump(args []string) int {
	w, err := loadWorld("/repo", "/verif/spec")
	if err != nil {
		fmt.Fprintln(os.Stderr, err)
		return 2
	}
	for _, a := range args {
		fn := w.lookupFunc(a)
		if fn == nil {
			var keys []string
			for k := range w.funcs {
				if strings.Contains(k, a) {
					keys = append(keys, k)
				}
			}
			sort.Strings(keys)
			fmt.Println("no such function; candidates:", strings.Join(keys, "\n  "))
			continue
		}
		fn.WriteTo(os.Stdout)
		for _, li := range findLoops(fn) {
			fmt.Printf("loop %d header block %d at %s\n", li.ordinal, li.header.Index, w.fset.Position(li.minPos))
		}
	}
	return 0
}

type runConfig struct {
	prop      string
	tier      string
	verbose   bool
	only      string
	outDir    string
	repo      string
	timeoutMs int
	par       int
	seed      int
}

func cmdCheck(args []string) int {
	fs := flag.NewFlagSet("check", flag.ExitOnError)
	cfg := runConfig{}
	fs.StringVar(&cfg.tier, "tier", "quick", "quick|thorough")
	fs.BoolVar(&cfg.verbose, "v", false, "verbose")
	fs.StringVar(&cfg.only, "only", "", "only functions whose name contains this")
	kindF := fs.String("kind", "", "only obligations of these kinds (comma separated; development aid)")
	fs.StringVar(&cfg.outDir, "out", "/verif/out", "scratch directory")
	fs.StringVar(&cfg.repo, "repo", "/repo", "repository")
	fs.IntVar(&cfg.par, "par", 9, "parallel obligations")
	tmo := fs.Int("timeout", 0, "solver timeout in ms (overrides the tier's)")
	if len(args) < 1 {
		fmt.Fprintln(os.Stderr, "usage: govc check <property>")
		return 2
	}
	cfg.prop = args[0]
	fs.Parse(args[1:])
	if t := os.Getenv("VERIF_TIER"); t == "quick" || t == "thorough" {
		cfg.tier = t
	}
	if s := os.Getenv("VERIF_SEED"); s != "" {
		fmt.Sscan(s, &cfg.seed)
	}
	// quick: nominally 10 s per solver stage (3 s first stage, case split, then a race of three solvers); the
	// nominal time is converted to the solver's own resource units (solver.go), so the verdict does not
	// depend on the machine or its load. Longer limits were tried and made things worse: the queries that
	// are never decided (covers, the axiom probe) then hold the cores for three times as long.
	cfg.timeoutMs = 10000
	if cfg.tier == "thorough" {
		cfg.timeoutMs = 60000
	}
	if *tmo > 0 {
		cfg.timeoutMs = *tmo
	}
	t0 := time.Now()
	repoRoot = cfg.repo
	currentTier = cfg.tier
	w, err := loadWorld(cfg.repo, "/verif/spec")
	if err != nil {
		fmt.Fprintln(os.Stderr, "CHECK-ERROR:", err)
		return 2
	}
	loadSecs := time.Since(t0).Seconds()
	prop := cfg.prop
	if prop == "all" {
		prop = ""
	}
	var units []*UnitResult
	for _, fc := range w.funcsForProp(prop) {
		if cfg.only != "" && !strings.Contains(fc.Name, cfg.only) {
			continue
		}
		units = append(units, w.verifyFunc(fc, nil))
	}
	if cfg.only == "" || strings.Contains("axioms", cfg.only) {
		// consistency probe of the axioms, with every check
		units = append(units, w.verifyAxioms([]string{cfg.prop}))
	}
	for _, l := range w.cs.lemmas {
		if prop == "" || contains(l.Props, prop) {
			if cfg.only != "" && !strings.Contains(l.Name, cfg.only) {
				continue
			}
			units = append(units, w.verifyLemma(l))
		}
	}
	for _, sp := range w.cs.sinks {
		if prop == "" || contains(sp.Props, prop) {
			if cfg.only != "" && !strings.Contains("sinks", cfg.only) {
				continue
			}
			units = append(units, w.verifySinks(sp))
		}
	}
	for _, sp := range w.cs.frames {
		if prop == "" || contains(sp.Props, prop) {
			if cfg.only != "" && !strings.Contains("frame", cfg.only) {
				continue
			}
			units = append(units, w.verifyFrame(sp))
		}
	}
	for _, sp := range w.cs.orders {
		if prop == "" || contains(sp.Props, prop) {
			if cfg.only != "" && !strings.Contains("ordered", cfg.only) {
				continue
			}
			units = append(units, w.verifyOrder(sp))
		}
	}
	for _, sp := range w.cs.positions {
		if prop == "" || contains(sp.Props, prop) {
			if cfg.only != "" && !strings.Contains("positions", cfg.only) {
				continue
			}
			units = append(units, w.verifyPositions(sp))
		}
	}
	for _, cl := range w.cs.classified {
		if prop == "" || contains(cl.Props, prop) {
			if cfg.only != "" && !strings.Contains(cl.Type, cfg.only) {
				continue
			}
			units = append(units, w.verifyClassified(cl))
		}
	}
	var obls []*Obligation
	for _, u := range units {
		for _, ob := range u.Obls {
			if *kindF != "" && !strings.Contains(","+*kindF+",", ","+ob.Kind+",") {
				continue
			}
			if prop == "" || len(ob.Props) == 0 || contains(ob.Props, prop) {
				obls = append(obls, ob)
			}
		}
	}
	dir := filepath.Join(cfg.outDir, cfg.prop)
	os.RemoveAll(dir)
	genSecs := time.Since(t0).Seconds() - loadSecs
	knownList := loadKnown("/verif/known_findings.json")
	retryExempt = func(ob *Obligation) bool { return matchKnown(knownList, cfg.prop, ob) != nil }
	dischargeAll(obls, dir, cfg.timeoutMs, cfg.par, cfg.tier == "thorough")
	if os.Getenv("GOVC_GENONLY") != "" {
		fmt.Printf("CHECK-ERROR: GOVC_GENONLY is set: %d query texts written to %s, nothing was decided\n", len(obls), dir)
		return 2
	}
	var bounded []boundedResult
	for _, sp := range w.cs.boundeds {
		if (prop == "" || contains(sp.Props, prop)) && (cfg.only == "" || strings.Contains("bounded "+sp.Name, cfg.only)) {
			bounded = append(bounded, runBounded(sp))
		}
	}
	return report(w, cfg, units, obls, bounded, loadSecs, genSecs, time.Since(t0).Seconds())
}
