package main

import (
	"bytes"
	"context"
	"fmt"
	"os"
	"os/exec"
	"path/filepath"
	"strings"
	"sync"
	"time"
)

// smtText renders one obligation as an SMT-LIB 2 query (unsat == discharged).
func (ob *Obligation) smtText(models bool, mode string) string {
	x := ob.ctx
	c := x.c
	var sb strings.Builder
	if models {
		sb.WriteString("(set-option :produce-models true)\n")
	}
	sb.WriteString("(set-logic ALL)\n")
	fmt.Fprintf(&sb, "; obligation %s (%s)\n; kind %s at %s\n; %s\n", ob.Name, mode, ob.Kind, ob.Pos, strings.ReplaceAll(ob.Desc, "\n", " "))
	hyps := x.hyps[:ob.NHyps]
	switch mode {
	case "cover":
		memo := map[*Term]bool{}
		var qf []*Term
		for _, h := range hyps {
			if !c.hasQuant(h, memo) {
				qf = append(qf, h)
			}
		}
		hyps = qf
	case "ground":
		var dropped int
		hyps, dropped = c.groundInstances(hyps, ob.Goal, 3)
		fmt.Fprintf(&sb, "; ground instantiation: %d quantified hypotheses replaced by instances\n", dropped)
	}
	roots := append(append([]*Term{}, hyps...), ob.Goal)
	c.Emit(&sb, roots)
	for _, h := range hyps {
		fmt.Fprintf(&sb, "(assert %s)\n", c.Ref(h))
	}
	fmt.Fprintf(&sb, "(assert (not %s))\n", c.Ref(ob.Goal))
	sb.WriteString("(check-sat)\n")
	if models {
		if len(ob.GetValues) > 0 {
			sb.WriteString("(get-value (")
			for _, t := range ob.GetValues {
				sb.WriteString(c.Ref(t) + " ")
			}
			sb.WriteString("))\n")
		} else {
			sb.WriteString("(get-model)\n")
		}
	}
	return sb.String()
}

var genMu sync.Mutex // term construction (ground instantiation) is not concurrent

type solverSpec struct {
	name string
	args func(file string, timeoutMs int) []string
}

var solvers = []solverSpec{
	{"z3-new", func(f string, ms int) []string { return []string{"z3-new", fmt.Sprintf("-T:%d", (ms+999)/1000), "-smt2", f} }},
	{"z3", func(f string, ms int) []string { return []string{"z3", fmt.Sprintf("-T:%d", (ms+999)/1000), "-smt2", f} }},
	{"cvc5", func(f string, ms int) []string {
		return []string{"cvc5", fmt.Sprintf("--tlimit=%d", ms), "--produce-models", f}
	}},
}

type solveResult struct {
	verdict string
	solver  string
	secs    float64
	output  string
}

func runSolver(ctx context.Context, s solverSpec, file string, timeoutMs int) solveResult {
	args := s.args(file, timeoutMs)
	cctx, cancel := context.WithTimeout(ctx, time.Duration(timeoutMs+2000)*time.Millisecond)
	defer cancel()
	cmd := exec.CommandContext(cctx, args[0], args[1:]...)
	var out bytes.Buffer
	cmd.Stdout = &out
	cmd.Stderr = &out
	t0 := time.Now()
	_ = cmd.Run()
	secs := time.Since(t0).Seconds()
	text := out.String()
	first := strings.TrimSpace(strings.SplitN(text, "\n", 2)[0])
	verdict := "unknown"
	switch first {
	case "unsat", "sat":
		verdict = first
	case "unknown":
		verdict = "unknown"
	case "timeout":
		verdict = "timeout"
	default:
		if cctx.Err() != nil {
			verdict = "timeout"
		} else if strings.Contains(text, "error") || strings.Contains(text, "Error") {
			verdict = "error"
		}
	}
	return solveResult{verdict, s.name, secs, text}
}

// discharge runs the portfolio on one obligation.
func discharge(ob *Obligation, dir string, timeoutMs int, confirm bool) {
	file := filepath.Join(dir, sanitize(ob.Name)+".smt2")
	mode := "full"
	if ob.Cover {
		mode = "cover"
	}
	genMu.Lock()
	text := ob.smtText(true, mode)
	genMu.Unlock()
	if err := os.WriteFile(file, []byte(text), 0o644); err != nil {
		ob.Verdict = "error"
		return
	}
	ob.File = file
	ctx, cancel := context.WithCancel(context.Background())
	defer cancel()
	// stage 1: z3-new alone, short
	first := timeoutMs
	if first > 3000 {
		first = 3000
	}
	r := runSolver(ctx, solvers[0], file, first)
	total := r.secs
	if r.verdict != "sat" && r.verdict != "unsat" {
		// stage 2: race all
		ch := make(chan solveResult, len(solvers))
		for _, s := range solvers {
			go func(s solverSpec) { ch <- runSolver(ctx, s, file, timeoutMs) }(s)
		}
		best := r
		for range solvers {
			rr := <-ch
			if rr.verdict == "sat" || rr.verdict == "unsat" {
				// cvc5 "sat" on quantified problems can be unreliable for refutation but is fine as a verdict here:
				best = rr
				cancel()
				break
			}
			if best.verdict == "error" || best.verdict == "" {
				best = rr
			}
			if rr.verdict == "timeout" && best.verdict == "unknown" {
				// keep unknown
			}
		}
		total += best.secs
		r = best
	}
	if r.verdict != "unsat" && !ob.Cover {
		// quantifier-free ground-instantiated query: can prove, and can produce a model
		gfile := filepath.Join(dir, sanitize(ob.Name)+".ground.smt2")
		genMu.Lock()
		gtext := ob.smtText(true, "ground")
		genMu.Unlock()
		if err := os.WriteFile(gfile, []byte(gtext), 0o644); err == nil {
			gctx, gcancel := context.WithCancel(context.Background())
			ch := make(chan solveResult, 2)
			for _, s := range solvers[:2] {
				go func(s solverSpec) { ch <- runSolver(gctx, s, gfile, timeoutMs) }(s)
			}
			for k := 0; k < 2; k++ {
				rr := <-ch
				if rr.verdict == "sat" || rr.verdict == "unsat" {
					rr.solver += "/ground"
					total += rr.secs
					r = rr
					ob.File = gfile
					break
				}
			}
			gcancel()
		}
	}
	ob.Verdict = r.verdict
	ob.Solver = r.solver
	ob.Seconds = total
	if r.verdict == "sat" {
		ob.Model = r.output
	}
	if r.verdict == "error" {
		ob.Model = r.output
	}
	if confirm && r.verdict == "unsat" {
		// second solver confirmation (thorough tier)
		for _, s := range solvers {
			if s.name == r.solver {
				continue
			}
			rr := runSolver(context.Background(), s, file, timeoutMs)
			if rr.verdict == "sat" {
				ob.Verdict = "disagree"
				ob.Model = rr.output
			}
			if rr.verdict == "unsat" {
				ob.Solver += "+" + s.name
				break
			}
		}
	}
}

func dischargeAll(obls []*Obligation, dir string, timeoutMs int, par int, confirm bool) {
	os.MkdirAll(dir, 0o755)
	var wg sync.WaitGroup
	sem := make(chan struct{}, par)
	for _, ob := range obls {
		wg.Add(1)
		sem <- struct{}{}
		go func(ob *Obligation) {
			defer wg.Done()
			defer func() { <-sem }()
			discharge(ob, dir, timeoutMs, confirm)
		}(ob)
	}
	wg.Wait()
}
