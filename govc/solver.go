package main

import (
	"bytes"
	"context"
	"fmt"
	"os"
	"os/exec"
	"path/filepath"
	"strconv"
	"strings"
	"sync"
	"time"
)

// smtText renders one obligation as an SMT-LIB 2 query (unsat == discharged).
//
//	mode full:   hypotheses as generated (quantified axioms with patterns), negated goal
//	mode ground: quantified hypotheses and the negated goal replaced by ground instances (quantifier free)
//	mode cover:  quantifier-free hypotheses only; the query must be satisfiable
func (ob *Obligation) smtText(models bool, mode string) string {
	x := ob.ctx
	c := x.c
	if !models {
		// (model extraction keeps its terms: the replay reads values back through them)
		n0, f0 := c.begin()
		defer c.rollback(n0, f0)
	}
	var sb strings.Builder
	if models {
		sb.WriteString("(set-option :produce-models true)\n")
	}
	sb.WriteString("(set-logic ALL)\n")
	fmt.Fprintf(&sb, "; obligation %s (%s)\n; kind %s at %s\n; %s\n", ob.Name, mode, ob.Kind, ob.Pos, strings.ReplaceAll(ob.Desc, "\n", " "))
	tA := time.Now()
	hyps := x.relevantHyps(ob)
	tRel += time.Since(tA).Seconds()
	tB := time.Now()
	defer func() { tRest += time.Since(tB).Seconds() }()
	if ob.caseMap != nil {
		// one case of the join this obligation's state was merged at: the reach condition of one
		// incoming path is true, those tried before it are false; the ite-merged terms collapse
		memo := map[*Term]*Term{}
		var nh []*Term
		for _, h := range hyps {
			if r := c.replace(h, ob.caseMap, memo); !c.isTrue(r) {
				nh = append(nh, r)
			}
		}
		hyps = append(nh, ob.caseFacts...) // the case itself, as facts (its conjuncts guard other hypotheses)
		saved := ob.Goal
		ob.Goal = c.replace(ob.Goal, ob.caseMap, memo)
		defer func() { ob.Goal = saved }()
		fmt.Fprintf(&sb, "; case %s of the last join\n", ob.caseName)
	}
	switch mode {
	case "cover":
		memo := map[*Term]bool{}
		var qf []*Term
		for _, h := range hyps {
			// (the consistency probe of the axioms keeps the quantified ones: they are what it is about)
			if !c.hasQuant(h, memo) || ob.Func == "axioms" {
				qf = append(qf, h)
			}
		}
		hyps = qf
	case "ground":
		var dropped int
		rounds := 3
		if r, err := strconv.Atoi(os.Getenv("GOVC_ROUNDS")); err == nil && r > 0 {
			rounds = r
		}
		hyps, dropped = c.groundInstances(hyps, ob.Goal, rounds)
		fmt.Fprintf(&sb, "; ground instantiation: %d quantified items replaced by instances\n", dropped)
	case "small":
		// model extraction in a small scope: sequences are short and recursive spec functions are
		// unfolded from small literals, so that the model is exact for them
		var dropped int
		c.seedSmall = true
		hyps, dropped = c.groundInstances(append(append([]*Term{}, hyps...), ob.SmallScope...), ob.Goal, 4)
		c.seedSmall = false
		fmt.Fprintf(&sb, "; small-scope ground instantiation: %d quantified items replaced by instances\n", dropped)
	}
	if mode == "ground" || mode == "small" {
		// hyps already contain the decomposed negated goal
		if models {
			c.Emit(&sb, append(append([]*Term{}, hyps...), ob.GetValues...))
		} else {
			c.Emit(&sb, hyps)
		}
		for _, h := range hyps {
			fmt.Fprintf(&sb, "(assert %s)\n", c.Ref(h))
		}
	} else {
		roots := append(append([]*Term{}, hyps...), ob.Goal)
		if models {
			roots = append(roots, ob.GetValues...)
		}
		c.Emit(&sb, roots)
		for _, h := range hyps {
			fmt.Fprintf(&sb, "(assert %s)\n", c.Ref(h))
		}
		fmt.Fprintf(&sb, "(assert (not %s))\n", c.Ref(ob.Goal))
	}
	sb.WriteString("(check-sat)\n")
	if models {
		if len(ob.GetValues) > 0 {
			sb.WriteString("(get-value (")
			for _, t := range ob.GetValues {
				sb.WriteString(c.Ref(t) + " ")
			}
			sb.WriteString("))\n")
		} else {
			sb.WriteString("(get-model)\n")
		}
	}
	return sb.String()
}

var genMu sync.Mutex // term construction (ground instantiation) is not concurrent
var genSeconds float64
var tRel, tRest float64 // time in hypothesis selection / instantiation+printing (development aid)

// A solver's budget is counted in its own resource units (z3: rlimit, cvc5: --rlimit), not in seconds:
// the units count work done, so whether a query is decided within its budget does not depend on how fast
// the machine is or on what else is running -- with the query texts being the same on every run (det.go),
// the verdict on an unchanged tree is the same on every run. Budgets are still written as nominal
// milliseconds (3 s first stage, 10 s quick, 60 s thorough) and converted with a per-solver rate measured
// on this code base's queries on a quiet machine. A wall-clock limit remains as a safety net only, at six
// times the nominal budget and no less than a minute.
type solverSpec struct {
	name string
	rate int // resource units per nominal millisecond
	args func(file string, units int, wallMs int) []string
}

var solvers = []solverSpec{
	{"z3-new", 5000, func(f string, units, ms int) []string {
		return []string{"z3-new", fmt.Sprintf("-T:%d", (ms+999)/1000), fmt.Sprintf("rlimit=%d", units), "-smt2", f}
	}},
	{"z3", 8000, func(f string, units, ms int) []string {
		return []string{"z3", fmt.Sprintf("-T:%d", (ms+999)/1000), fmt.Sprintf("rlimit=%d", units), "-smt2", f}
	}},
	{"cvc5", 400, func(f string, units, ms int) []string {
		return []string{"cvc5", fmt.Sprintf("--tlimit=%d", ms), fmt.Sprintf("--rlimit=%d", units), f}
	}},
}

func wallCapMs(nominalMs int) int {
	if w := 6 * nominalMs; w > 60000 {
		return w
	}
	return 60000
}

type solveResult struct {
	verdict string
	solver  string
	secs    float64
	output  string
}

func runSolver(ctx context.Context, s solverSpec, file string, nominalMs int) solveResult {
	return runSolverWall(ctx, s, file, nominalMs, wallCapMs(nominalMs))
}

// runSolverWall: with an explicit wall-clock limit (the vacuity probes, whose "undecided" is a note and
// not an alarm, keep the nominal time as their wall-clock limit: some of them use next to no resource
// units per second and would otherwise hold a core for the whole safety net).
func runSolverWall(ctx context.Context, s solverSpec, file string, nominalMs, timeoutMs int) solveResult {
	units := s.rate * nominalMs
	if p, err := strconv.Atoi(os.Getenv("GOVC_BUDGET_PCT")); err == nil && p > 0 {
		// development aid (margins): the same run with a fraction of every budget shows which obligations
		// are decided with little to spare
		units = units / 100 * p
	}
	args := s.args(file, units, timeoutMs)
	cctx, cancel := context.WithTimeout(ctx, time.Duration(timeoutMs+2000)*time.Millisecond)
	defer cancel()
	cmd := exec.CommandContext(cctx, args[0], args[1:]...)
	var out bytes.Buffer
	cmd.Stdout = &out
	cmd.Stderr = &out
	t0 := time.Now()
	_ = cmd.Run()
	secs := time.Since(t0).Seconds()
	text := out.String()
	first := ""
	for _, l := range strings.Split(text, "\n") {
		l = strings.TrimSpace(l)
		if l == "" || strings.HasPrefix(l, "WARNING") || strings.HasPrefix(l, "(warning") {
			continue
		}
		first = l
		break
	}
	verdict := "unknown"
	switch first {
	case "unsat", "sat":
		verdict = first
	case "unknown":
		verdict = "unknown"
	case "timeout":
		verdict = "timeout"
	default:
		if cctx.Err() != nil || ctx.Err() != nil {
			verdict = "timeout"
		} else if s.name == "cvc5" && strings.Contains(text, "cadical: fatal error") {
			// how cvc5 1.0 ends when its resource limit is reached inside the SAT solver
			verdict = "unknown"
		} else if strings.Contains(text, "error") || strings.Contains(text, "Error") {
			verdict = "error"
		}
	}
	return solveResult{verdict, s.name, secs, text}
}

// discharge runs the portfolio on one obligation.
//
//	stage 1: z3-new on the ground (quantifier-free) query and on the full query, concurrently, short timeout;
//	stage 2: all three solvers raced on the full query with the tier's timeout.
//
// unsat from any of them discharges the obligation (ground instances are consequences of the
// hypotheses). If nothing proves it and the ground query is satisfiable, the verdict is sat and the
// ground query is re-run with model production for the replay.
func discharge(ob *Obligation, dir string, timeoutMs int, confirm bool) {
	file := filepath.Join(dir, sanitize(ob.Name)+".smt2")
	mode := "full"
	if ob.Cover {
		mode = "cover"
	}
	genMu.Lock()
	g0 := time.Now()
	text := ob.smtText(false, mode)
	var gtext string
	if !ob.Cover {
		gtext = ob.smtText(false, "ground")
	}
	genSeconds += time.Since(g0).Seconds()
	genMu.Unlock()
	if err := os.WriteFile(file, []byte(text), 0o644); err != nil {
		ob.Verdict = "error"
		return
	}
	ob.File = file
	first := timeoutMs
	if first > 3000 {
		first = 3000
	}
	if ob.Cover {
		r := runSolverWall(context.Background(), solvers[0], file, first, first)
		if r.verdict != "sat" && r.verdict != "unsat" && ob.Func != "axioms" {
			// (the axiom probe gets the short attempt only: it looks for an outright contradiction)
			r = runSolverWall(context.Background(), solvers[1], file, timeoutMs, timeoutMs)
		}
		ob.Verdict, ob.Solver, ob.Seconds = r.verdict, r.solver, r.secs
		return
	}
	gfile := filepath.Join(dir, sanitize(ob.Name)+".ground.smt2")
	haveGround := gtext != "" && stripComments(gtext) != stripComments(text)
	if haveGround {
		if err := os.WriteFile(gfile, []byte(gtext), 0o644); err != nil {
			haveGround = false
		}
	}
	total := 0.0
	groundSat := false
	// stage 1
	ctx1, cancel1 := context.WithCancel(context.Background())
	ch := make(chan solveResult, 2)
	n := 1
	go func() { ch <- runSolver(ctx1, solvers[0], file, first) }()
	if haveGround {
		n = 2
		go func() {
			r := runSolver(ctx1, solvers[0], gfile, first)
			r.solver += "/ground"
			ch <- r
		}()
	}
	var proved *solveResult
	var fullRes solveResult
	for k := 0; k < n; k++ {
		r := <-ch
		if r.secs > total {
			total = r.secs
		}
		if strings.HasSuffix(r.solver, "/ground") {
			if r.verdict == "sat" {
				groundSat = true
			}
		} else {
			fullRes = r
		}
		if r.verdict == "unsat" && proved == nil {
			rr := r
			proved = &rr
			cancel1()
		}
	}
	cancel1()
	// not proved within the first, short stage: before the long race, try it case by case over the paths merged at the last join (each case is
	// a smaller query in which the merged terms collapse; all cases unsat == the obligation holds)
	if proved == nil && fullRes.verdict != "sat" && ob.caseMap == nil && len(ob.Splits) >= 2 && !ob.Cover {
		c := ob.ctx.c
		all := true
		secs := total
		for i := range ob.Splits {
			d := *ob
			d.Splits = nil
			d.Name = fmt.Sprintf("%s#case%d", ob.Name, i+1)
			d.caseName = fmt.Sprintf("%d of %d", i+1, len(ob.Splits))
			genMu.Lock()
			d.caseMap = map[*Term]*Term{}
			d.caseFacts = nil
			for j := 0; j < i; j++ {
				d.caseMap[ob.Splits[j]] = c.False()
				d.caseFacts = append(d.caseFacts, c.Not(ob.Splits[j]))
			}
			if i < len(ob.Splits)-1 {
				d.caseMap[ob.Splits[i]] = c.True()
			}
			d.caseFacts = append(d.caseFacts, ob.Splits[i])
			genMu.Unlock()
			discharge(&d, dir, timeoutMs, false)
			secs += d.Seconds
			if d.Verdict != "unsat" {
				all = false
				break
			}
		}
		if all {
			ob.Verdict, ob.Solver, ob.Seconds = "unsat", fmt.Sprintf("case-split(%d)", len(ob.Splits)), secs
			return
		}
		total = secs
	}
	if proved == nil && fullRes.verdict != "sat" {
		// stage 2: race all three on the full query
		ctx2, cancel2 := context.WithCancel(context.Background())
		ch2 := make(chan solveResult, len(solvers))
		for _, s := range solvers {
			go func(s solverSpec) { ch2 <- runSolver(ctx2, s, file, timeoutMs) }(s)
		}
		best := fullRes
		for range solvers {
			rr := <-ch2
			if rr.verdict == "unsat" {
				r2 := rr
				proved = &r2
				total += rr.secs
				break
			}
			if rr.verdict == "sat" && !strings.HasPrefix(rr.solver, "cvc5") {
				best = rr
			} else if best.verdict == "" || best.verdict == "error" {
				best = rr
			}
		}
		cancel2()
		if proved == nil {
			fullRes = best
			total += float64(timeoutMs) / 1000
		}
	}
	if proved != nil {
		ob.Verdict, ob.Solver, ob.Seconds = "unsat", proved.solver, total
		if strings.HasSuffix(proved.solver, "/ground") {
			ob.File = gfile
		}
		if confirm {
			confirmWith(ob, ob.File, proved.solver, timeoutMs)
		}
		return
	}
	ob.Seconds = total
	if groundSat || fullRes.verdict == "sat" {
		ob.Verdict = "sat"
		ob.Solver = "z3-new"
		ob.SatMode = "full"
		if groundSat {
			ob.SatMode = "ground"
			ob.Solver += "/ground"
			ob.File = gfile
		}
		// the model is extracted later (replay), by re-running this query with get-value probes
		return
	}
	ob.Verdict = fullRes.verdict
	if ob.Verdict == "" {
		ob.Verdict = "unknown"
	}
	ob.Solver = fullRes.solver
	if fullRes.verdict == "error" {
		ob.Model = fullRes.output
	}
}

func stripComments(s string) string {
	var sb strings.Builder
	for _, l := range strings.Split(s, "\n") {
		if !strings.HasPrefix(l, ";") {
			sb.WriteString(l)
			sb.WriteString("\n")
		}
	}
	return sb.String()
}

// confirmWith: second-solver confirmation (thorough tier); disagreement is reported.
func confirmWith(ob *Obligation, file, used string, timeoutMs int) {
	for _, s := range solvers {
		if strings.HasPrefix(used, s.name) && (len(used) == len(s.name) || used[len(s.name)] == '/') {
			continue
		}
		rr := runSolver(context.Background(), s, file, timeoutMs)
		if rr.verdict == "sat" && s.name != "cvc5" {
			ob.Verdict = "disagree"
			ob.Model = rr.output
			return
		}
		if rr.verdict == "unsat" {
			ob.Solver += "+" + s.name
			return
		}
	}
}

// retryExempt: obligations that get no second attempt (set by the check command).
var retryExempt func(ob *Obligation) bool

func dischargeAll(obls []*Obligation, dir string, timeoutMs int, par int, confirm bool) {
	os.MkdirAll(dir, 0o755)
	// the few terms the case split makes outside the rendering of a query, made here, in order (see det.go)
	for _, ob := range obls {
		if len(ob.Splits) >= 2 && !ob.Cover {
			for _, s := range ob.Splits {
				ob.ctx.c.Not(s)
			}
		}
	}
	if os.Getenv("GOVC_GENONLY") != "" {
		// development aid (tools/determinism.sh): write the query texts and stop
		for _, ob := range obls {
			mode := "full"
			if ob.Cover {
				mode = "cover"
			}
			os.WriteFile(filepath.Join(dir, sanitize(ob.Name)+".smt2"), []byte(ob.smtText(false, mode)), 0o644)
			if !ob.Cover {
				os.WriteFile(filepath.Join(dir, sanitize(ob.Name)+".ground.smt2"), []byte(ob.smtText(false, "ground")), 0o644)
			}
		}
		return
	}
	var wg sync.WaitGroup
	sem := make(chan struct{}, par)
	for _, ob := range obls {
		wg.Add(1)
		sem <- struct{}{}
		go func(ob *Obligation) {
			defer wg.Done()
			defer func() { <-sem }()
			discharge(ob, dir, timeoutMs, confirm)
		}(ob)
	}
	wg.Wait()
	// Second chance: an obligation that was not decided (budget used up, "unknown", or a model of the
	// ground-instantiated query only, which refutes nothing) is tried once more, two at a time, with four
	// times the budget. A real refutation (a model of the full query) is final and is not retried.
	var again []*Obligation
	for _, ob := range obls {
		if ob.Cover || ob.Verdict == "unsat" || (ob.Verdict == "sat" && ob.SatMode != "ground") {
			continue
		}
		if retryExempt != nil && retryExempt(ob) {
			continue // the obligation of a listed known finding: expected not to be discharged
		}
		again = append(again, ob)
	}
	if len(again) > 0 && len(again) <= 12 {
		sem2 := make(chan struct{}, 2)
		for _, ob := range again {
			wg.Add(1)
			sem2 <- struct{}{}
			go func(ob *Obligation) {
				defer wg.Done()
				defer func() { <-sem2 }()
				first := ob.Seconds
				ob.Verdict, ob.Solver, ob.Model, ob.SatMode = "", "", "", ""
				discharge(ob, dir, timeoutMs*4, confirm)
				ob.Seconds += first
				if ob.Verdict == "unsat" {
					ob.Solver += " (second attempt)"
				}
			}(ob)
		}
		wg.Wait()
	}
}
