package main

import (
	"fmt"
	"go/token"
	"go/types"
	"sort"
	"strings"

	"golang.org/x/tools/go/ssa"
)

// Effects is a may-write summary: heap key prefixes.
type Effects struct {
	all      bool
	allocs   bool
	prefixes map[string]bool
	// soft: the only writes to this component initialise objects the writer allocated itself (stores
	// through the result of new in the same function): objects that existed before a call keep their
	// contents. Used only where a contract asks for it (fresh-frames); everywhere else a soft
	// component is havoced like any other.
	soft map[string]bool
}

func newEffects() *Effects { return &Effects{prefixes: map[string]bool{}, soft: map[string]bool{}} }

// write records a write that may reach objects the caller knows.
func (e *Effects) write(p string) {
	e.prefixes[p] = true
	delete(e.soft, p)
}

// initWrite records a write into an object allocated by the writer.
func (e *Effects) initWrite(p string) {
	if !e.prefixes[p] {
		e.soft[p] = true
	}
	e.prefixes[p] = true
}

func (e *Effects) add(o *Effects) {
	if o.all {
		e.all = true
	}
	if o.allocs {
		e.allocs = true
	}
	for p := range o.prefixes {
		if o.soft[p] {
			e.initWrite(p)
		} else {
			e.write(p)
		}
	}
}

// rootedAtNew: the address is a field or element of an object allocated by this very instruction
// sequence (new T, &T{...}, the backing array of a slice literal), reached without a load.
func rootedAtNew(addr ssa.Value) bool {
	switch a := addr.(type) {
	case *ssa.Alloc:
		return a.Heap
	case *ssa.FieldAddr:
		return rootedAtNew(a.X)
	case *ssa.IndexAddr:
		if _, ok := a.X.Type().Underlying().(*types.Pointer); ok {
			return rootedAtNew(a.X)
		}
	}
	return false
}

// addrPrefix computes the heap key prefix written by a store through addr
// (nil if it is a local cell).
func addrPrefix(addr ssa.Value) (prefix string, local *ssa.Alloc, ok bool) {
	switch a := addr.(type) {
	case *ssa.Alloc:
		if !a.Heap {
			return "", a, true
		}
		et := deref(a.Type())
		if named, _, isS := isNamedStruct(et); isS {
			return "F:" + typeKey(named), nil, true
		}
		return "B:" + typeKey(et), nil, true
	case *ssa.FieldAddr:
		st := deref(a.X.Type())
		fname := st.Underlying().(*types.Struct).Field(a.Field).Name()
		p, loc, ok := addrPrefix(a.X)
		if !ok {
			// base is an arbitrary pointer to struct
			if named, _, isS := isNamedStruct(st); isS {
				return "F:" + typeKey(named) + "." + fname, nil, true
			}
			return "", nil, false
		}
		if loc != nil {
			return "", loc, true
		}
		if strings.HasPrefix(p, "B:") || p == "" {
			if named, _, isS := isNamedStruct(st); isS {
				return "F:" + typeKey(named) + "." + fname, nil, true
			}
			return "", nil, false
		}
		// p is a F:/E:/G: prefix for the enclosing struct value
		if _, _, isS := isNamedStruct(st); isS && !strings.Contains(p[2:], ".") && strings.HasPrefix(p, "F:") {
			return p + "." + fname, nil, true
		}
		return p + "." + fname, nil, true
	case *ssa.IndexAddr:
		switch t := a.X.Type().Underlying().(type) {
		case *types.Slice:
			return "E:" + typeKey(t.Elem()), nil, true
		case *types.Pointer: // pointer to array
			p, loc, ok := addrPrefix(a.X)
			if ok {
				return p, loc, true
			}
			return "", nil, false
		}
	case *ssa.Global:
		return "G:" + a.Pkg.Pkg.Name() + "." + a.Name(), nil, true
	case *ssa.UnOp:
		// load of a pointer from somewhere: pointer to struct or box
	}
	// generic pointer value
	et := deref(addr.Type())
	if named, _, isS := isNamedStruct(et); isS {
		return "F:" + typeKey(named), nil, true
	}
	if _, isS := et.Underlying().(*types.Struct); isS {
		return "", nil, false
	}
	return "B:" + typeKey(et), nil, true
}

// instrEffects accumulates the writes of one instruction.
func (w *World) instrEffects(in ssa.Instruction, eff *Effects, cells map[*ssa.Alloc]bool, x *Exec) {
	switch i := in.(type) {
	case *ssa.Store:
		p, loc, ok := addrPrefix(i.Addr)
		if !ok {
			eff.all = true
			return
		}
		if loc != nil {
			if cells != nil {
				cells[loc] = true
			}
			return
		}
		if rootedAtNew(i.Addr) {
			eff.initWrite(p)
		} else {
			eff.write(p)
		}
	case *ssa.MapUpdate:
		eff.write("M:" + typeKey(i.Map.Type()))
	case *ssa.Alloc:
		if i.Heap {
			eff.allocs = true
		} else if cells != nil {
			cells[i] = true // re-zeroed each iteration
		}
	case *ssa.MakeSlice, *ssa.MakeMap, *ssa.MakeInterface, *ssa.MakeClosure, *ssa.MakeChan:
		eff.allocs = true
	case *ssa.Convert:
		eff.allocs = true
	case *ssa.BinOp:
		if i.Op == token.ADD && isString(i.Type()) {
			eff.allocs = true
		}
	case *ssa.Slice:
		if _, ok := i.X.Type().Underlying().(*types.Pointer); ok {
			eff.allocs = true // slicing an array is modelled as a copy into a fresh backing array
		}
	case *ssa.Call:
		eff.add(w.callEffects(i, &i.Call, cells, x))
	case *ssa.Defer:
		eff.add(w.callEffects(i, &i.Call, cells, x))
	case *ssa.Go:
		eff.all = true
	}
}

func (w *World) callEffects(site ssa.CallInstruction, call *ssa.CallCommon, cells map[*ssa.Alloc]bool, x *Exec) *Effects {
	eff := newEffects()
	if call.IsInvoke() {
		if fc := w.contractForMethod(call); fc != nil && (fc.Pure || fc.ModifiesGiven) {
			eff.allocs = true
			if !fc.Pure {
				w.modifiesEffects(fc, eff)
			}
			return eff
		}
		return w.dynamicEffects(site)
	}
	switch f := call.Value.(type) {
	case *ssa.Builtin:
		return w.builtinEffects(f, call)
	case *ssa.Function:
		eff.add(w.funcEffects(f))
		// locals whose address is passed may be written
		if cells != nil {
			for _, a := range call.Args {
				if _, isPtr := a.Type().Underlying().(*types.Pointer); !isPtr {
					continue
				}
				if _, loc, ok := addrPrefix(a); ok && loc != nil {
					cells[loc] = true
				}
			}
		}
		return eff
	case *ssa.MakeClosure:
		fn := f.Fn.(*ssa.Function)
		eff.add(w.funcEffects(fn))
		w.closureCellWrites(fn, f, cells)
		return eff
	}
	// call through a function-typed parameter that the enclosing function declares as callback:
	// its effects are supplied by the caller at each call site
	if p := calleeParam(call); p != nil {
		if fc := w.contracts[funcKey(p.Parent())]; fc != nil {
			if _, ok := fc.Callbacks[p.Name()]; ok {
				eff.allocs = true
				return eff
			}
		}
	}
	// dynamic call through a function value
	if x != nil {
		if fn, mc := x.staticClosure(call.Value); fn != nil {
			eff.add(w.funcEffects(fn))
			if mc != nil {
				w.closureCellWrites(fn, mc, cells)
			}
			return eff
		}
		if p, ok := call.Value.(*ssa.Parameter); ok {
			if cb := x.callbackFor(p); cb != nil {
				eff.add(cb)
				return eff
			}
		}
		if ld, ok := call.Value.(*ssa.UnOp); ok && ld.Op == token.MUL {
			if al, ok := ld.X.(*ssa.Alloc); ok {
				// function stored in a local cell: find the unique MakeClosure stored to it
				if fn, mc := x.closureInCell(al); fn != nil {
					eff.add(w.funcEffects(fn))
					w.closureCellWrites(fn, mc, cells)
					return eff
				}
			}
		}
	}
	return w.dynamicEffects(site)
}

// dynamicEffects: union over the class-hierarchy call graph's candidates for this call site.
func (w *World) dynamicEffects(site ssa.CallInstruction) *Effects {
	w.computeEffects()
	eff := newEffects()
	eff.allocs = true
	for _, c := range w.siteCallees[site] {
		eff.add(w.funcEffects(c))
	}
	return eff
}

// closureCellWrites marks the parent's cells that the closure body stores to.
func (w *World) closureCellWrites(fn *ssa.Function, mc *ssa.MakeClosure, cells map[*ssa.Alloc]bool) {
	if cells == nil || mc == nil {
		return
	}
	for k, fv := range fn.FreeVars {
		written := false
		for _, b := range fn.Blocks {
			for _, in := range b.Instrs {
				if s, ok := in.(*ssa.Store); ok {
					if root(s.Addr) == ssa.Value(fv) {
						written = true
					}
				}
				if c, ok := in.(*ssa.Call); ok {
					for _, a := range c.Call.Args {
						if root(a) == ssa.Value(fv) {
							written = true
						}
					}
				}
			}
		}
		if written {
			if al, ok := mc.Bindings[k].(*ssa.Alloc); ok {
				cells[al] = true
			}
		}
	}
}

func root(v ssa.Value) ssa.Value {
	for {
		switch a := v.(type) {
		case *ssa.FieldAddr:
			v = a.X
		case *ssa.IndexAddr:
			v = a.X
		default:
			return v
		}
	}
}

func hasRefs(t types.Type) bool {
	switch u := t.Underlying().(type) {
	case *types.Basic:
		return false
	case *types.Struct:
		for i := 0; i < u.NumFields(); i++ {
			if hasRefs(u.Field(i).Type()) {
				return true
			}
		}
		return false
	case *types.Array:
		return hasRefs(u.Elem())
	}
	return true
}

// pure externals: packages whose functions never write through their arguments
// (except where a contract says otherwise).
func (w *World) pureExternal(fn *ssa.Function) bool {
	if fn.Pkg == nil {
		return false
	}
	switch fn.Pkg.Pkg.Path() {
	case "strings", "bytes", "unicode/utf8", "unicode", "strconv", "math", "errors", "fmt", "regexp", "path/filepath", "reflect", "sort":
		name := fn.Name()
		if fn.Pkg.Pkg.Path() == "sort" {
			return name == "SearchStrings" || name == "SearchInts"
		}
		if fn.Pkg.Pkg.Path() == "fmt" {
			return strings.HasPrefix(name, "Sprint") || name == "Errorf"
		}
		if fn.Pkg.Pkg.Path() == "regexp" && fn.Signature.Recv() != nil {
			return name != "Longest"
		}
		if fn.Pkg.Pkg.Path() == "strings" && fn.Signature.Recv() != nil {
			return false // strings.Builder etc.
		}
		if fn.Pkg.Pkg.Path() == "bytes" && fn.Signature.Recv() != nil {
			return false
		}
		return true
	}
	return false
}

func (w *World) inRepo(fn *ssa.Function) bool {
	if fn.Pkg == nil {
		// synthetic wrappers (bound methods, thunks) have bodies that call the real method
		return fn.Synthetic != "" && len(fn.Blocks) > 0
	}
	return strings.HasPrefix(fn.Pkg.Pkg.Path(), "github.com/benhoyt/goawk")
}

// paramOfCell: the parameter whose (naive-form) spill cell this Alloc is.
func paramOfCell(al *ssa.Alloc) *ssa.Parameter {
	var p *ssa.Parameter
	n := 0
	if al.Referrers() == nil {
		return nil
	}
	for _, ref := range *al.Referrers() {
		if s, ok := ref.(*ssa.Store); ok && s.Addr == ssa.Value(al) {
			n++
			if pp, ok := s.Val.(*ssa.Parameter); ok {
				p = pp
			}
		}
	}
	if n == 1 {
		return p
	}
	return nil
}

// calleeParam: is this call made through a function-typed parameter (directly or via its spill cell)?
func calleeParam(call *ssa.CallCommon) *ssa.Parameter {
	switch v := call.Value.(type) {
	case *ssa.Parameter:
		return v
	case *ssa.UnOp:
		if al, ok := v.X.(*ssa.Alloc); ok && v.Op == token.MUL {
			return paramOfCell(al)
		}
	}
	return nil
}

func funcKey(fn *ssa.Function) string {
	s := fn.String()
	s = strings.ReplaceAll(s, "github.com/benhoyt/goawk/internal/", "")
	s = strings.ReplaceAll(s, "github.com/benhoyt/goawk/", "")
	if s == "github.com/benhoyt/goawk" {
		return "main"
	}
	return s
}

// ---- calls -------------------------------------------------------------------------------

func (x *Exec) staticClosure(v ssa.Value) (*ssa.Function, *ssa.MakeClosure) {
	switch f := v.(type) {
	case *ssa.Function:
		return f, nil
	case *ssa.MakeClosure:
		return f.Fn.(*ssa.Function), f
	case *ssa.UnOp:
		if al, ok := f.X.(*ssa.Alloc); ok && f.Op == token.MUL {
			return x.closureInCell(al)
		}
	}
	return nil, nil
}

// closureInCell finds the unique closure stored into a local cell (e.g. readLine := func…).
func (x *Exec) closureInCell(al *ssa.Alloc) (*ssa.Function, *ssa.MakeClosure) {
	var found *ssa.MakeClosure
	var fn *ssa.Function
	n := 0
	for _, ref := range *al.Referrers() {
		if s, ok := ref.(*ssa.Store); ok && s.Addr == ssa.Value(al) {
			n++
			switch v := s.Val.(type) {
			case *ssa.MakeClosure:
				found = v
				fn = v.Fn.(*ssa.Function)
			case *ssa.Function:
				fn = v
			}
		}
	}
	if n == 1 && fn != nil {
		return fn, found
	}
	return nil, nil
}

func (x *Exec) callbackFor(p *ssa.Parameter) *Effects {
	if x.fc == nil {
		return nil
	}
	if cb, ok := x.fc.Callbacks[p.Name()]; ok {
		eff := newEffects()
		if cb.Pure {
			return eff
		}
		eff.all = true
		eff.allocs = true
		return eff
	}
	return nil
}

func (x *Exec) call(st *State, i *ssa.Call) {
	// pre(...) in a ghost update is the state just before the call
	x.ghostPre = nil
	if x.fc != nil && i.Parent() == x.fn {
		if name := ghostCallName(&i.Call); name != "" {
			for _, g := range x.fc.Ghosts {
				if g.On[name] != nil {
					x.ghostPre = st.clone()
					break
				}
			}
		}
	}
	res := x.doCall(st, &i.Call, i, i.Pos())
	x.regs[i] = res
	x.ghostAfterCall(st, &i.Call, i.Parent(), i.Pos(), res)
	x.ghostPre = nil
}

// ghostAfterCall updates the ghost variables of the function under verification that follow calls
// of this callee.
func (x *Exec) ghostAfterCall(st *State, call *ssa.CallCommon, parent *ssa.Function, pos token.Pos, res Value) {
	name := ghostCallName(call)
	if name == "" || x.fc == nil || parent != x.fn {
		return
	}
	for _, g := range x.fc.Ghosts {
		e := g.On[name]
		if e == nil {
			continue
		}
		env := x.envFor(x.fn, st, x.entry, nil)
		env.locals = true
		env.pos = pos
		env.pre = x.ghostPre
		x.bindResults(env, nil, call.Signature().Results(), res)
		if call.IsInvoke() {
			// the receiver of an interface method call, as recv
			env.names["recv"] = TV{x.val(st, call.Value), call.Value.Type()}
		}
		// the arguments of the call by position (for a method the receiver is arg0)
		for k, a := range call.Args {
			env.names[fmt.Sprintf("arg%d", k)] = TV{x.val(st, a), a.Type()}
		}
		if ld, ok := call.Value.(*ssa.UnOp); ok {
			// a call through a function-valued field: its arguments under the names of the field's contract
			if fa, ok := ld.X.(*ssa.FieldAddr); ok {
				st0 := deref(fa.X.Type())
				if fcF := x.w.contracts["field "+typeKey(st0)+"."+fieldName(st0, fa.Field)]; fcF != nil {
					for k, n := range fcF.ParamNames {
						if k < len(call.Args) {
							env.names[n] = TV{x.val(st, call.Args[k]), call.Args[k].Type()}
						}
					}
				}
			}
		}
		st.ghost[g.Name] = x.ghostUpdate(g, e, env, st, pos)
	}
}

// ghostUpdate: the new value of a ghost variable after a call. Where the update cannot be read (it
// names a local of the function that is not declared at this call site) the ghost becomes unknown
// there: nothing can be proved from it on such a path, and nothing else is affected.
func (x *Exec) ghostUpdate(g *GhostDecl, e *CE, env *Env, st *State, pos token.Pos) (t *Term) {
	defer func() {
		if r := recover(); r != nil {
			if _, isU := r.(unsupportedErr); !isU {
				panic(r)
			}
			srt := SInt
			if old, has := st.ghost[g.Name]; has {
				srt = old.sort
			}
			t = x.c.Fresh("gunk_"+g.Name, srt)
			x.ledger[fmt.Sprintf("ghost %s is unknown after the call at %s (its update is not readable there: %v)", g.Name, x.pos(pos), r)] = true
		}
	}()
	return x.scalar(x.eval(e, env).V)
}

// ghostCallName: the name under which ghost updates ("ghost g on <name> := ...") refer to a call: the
// function's short name, the method name of an interface call, the field name of a call through a
// function-valued struct field.
func ghostCallName(call *ssa.CallCommon) string {
	if call.IsInvoke() {
		return call.Method.Name()
	}
	switch f := call.Value.(type) {
	case *ssa.Function:
		return lastName(funcKey(f))
	case *ssa.UnOp:
		if fa, ok := f.X.(*ssa.FieldAddr); ok && f.Op == token.MUL {
			return fieldName(deref(fa.X.Type()), fa.Field)
		}
		// a function literal kept in a local variable (readLine := func() ...): the variable's name
		if al, ok := f.X.(*ssa.Alloc); ok && f.Op == token.MUL && al.Comment != "" {
			return al.Comment
		}
	}
	return ""
}

func (x *Exec) doCall(st *State, call *ssa.CallCommon, instr ssa.Instruction, pos token.Pos) Value {
	var resType types.Type
	if v, ok := instr.(ssa.Value); ok {
		resType = v.Type()
	}
	if call.IsInvoke() {
		return x.invoke(st, call, resType, pos)
	}
	var args []Value
	for _, a := range call.Args {
		args = append(args, x.val(st, a))
	}
	switch f := call.Value.(type) {
	case *ssa.Builtin:
		return x.builtin(st, f, call, args, resType, pos)
	case *ssa.Function:
		return x.callFunc(st, f, nil, call, args, resType, pos)
	}
	fv := x.val(st, call.Value)
	if f, ok := fv.(FuncV); ok && f.Fn != nil {
		return x.callFunc(st, f.Fn, f.Binds, call, args, resType, pos)
	}
	// call through a function-typed parameter with a callback contract
	if f, ok := fv.(FuncV); ok && f.Param != nil && x.fc != nil {
		if cb, ok := x.fc.Callbacks[f.Param.Name()]; ok {
			return x.callCallback(st, cb, f, resType, pos)
		}
	}
	// call through a function stored in a struct field that has a contract ("func field T.f")
	if ld, ok := call.Value.(*ssa.UnOp); ok && ld.Op == token.MUL {
		if fa, ok := ld.X.(*ssa.FieldAddr); ok {
			st0 := deref(fa.X.Type())
			key := "field " + typeKey(st0) + "." + fieldName(st0, fa.Field)
			if fc := x.w.contracts[key]; fc != nil {
				sig := call.Value.Type().Underlying().(*types.Signature)
				names := []string{"recv"}
				if fc.RecvName != "" {
					names[0] = fc.RecvName
				}
				tys := []types.Type{fa.X.Type()}
				vals := []Value{x.val(st, fa.X)}
				for k := 0; k < sig.Params().Len(); k++ {
					n := sig.Params().At(k).Name()
					if k < len(fc.ParamNames) {
						n = fc.ParamNames[k]
					}
					names = append(names, n)
					tys = append(tys, sig.Params().At(k).Type())
					vals = append(vals, args[k])
				}
				x.ledger["contract of the function stored in "+key+" (calls through the field are checked against it)"] = true
				// the callee is unknown code: besides the contract's frame, everything the program-wide
				// analysis says such a function value may write
				eff := x.w.dynamicEffects(instr.(ssa.CallInstruction))
				if eff.all {
					x.havocForUnknown(st)
				} else {
					x.applyEffects(st, eff)
				}
				return x.applyContract(st, fc, names, tys, vals, sig.Results(), resType, pos, key, nil)
			}
		}
	}
	// unknown function value: havoc everything
	if ci, ok := instr.(ssa.CallInstruction); ok {
		eff := x.w.dynamicEffects(ci)
		x.ledger["dynamic call through a function value in "+shortFunc(x.unitName())+": the write sets of all candidates of the call graph (CHA+VTA) havoced, result unconstrained"] = true
		if eff.all {
			x.havocForUnknown(st)
		} else {
			x.applyEffects(st, eff)
			nt := x.c.Fresh("allocTop", SInt)
			x.hyps = append(x.hyps, x.c.Le(st.allocTop, nt))
			st.allocTop = nt
		}
		return x.freshResult(st, "dyncall", resType)
	}
	x.ledger["dynamic call through unknown function value in "+shortFunc(x.unitName())+": everything havoced"] = true
	x.havocForUnknown(st)
	return x.freshResult(st, "dyncall", resType)
}

func (x *Exec) havocForUnknown(st *State) {
	x.havocAll(st)
	for _, cell := range sortedAllocs(x.escaped) {
		if _, ok := st.cells[cell]; ok {
			t := deref(cell.Type())
			st.cells[cell] = x.freshValue("esc_"+cell.Comment, t)
		}
	}
	nt := x.c.Fresh("allocTop", SInt)
	x.hyps = append(x.hyps, x.c.Le(st.allocTop, nt))
	st.allocTop = nt
}

func (x *Exec) freshResult(st *State, name string, t types.Type) Value {
	if t == nil {
		return TupleV{}
	}
	if tu, ok := t.(*types.Tuple); ok && tu.Len() == 0 {
		return TupleV{}
	}
	v := x.freshValue(name, t)
	x.assumeRanges(st, v, t)
	return v
}

// callCallback: a call through a declared callback parameter. A pure callback returns a function of
// the callback-state version; a havoc callback advances the version (its memory effects are on the
// caller's side and invisible here: the function under contract owns none of that memory).
func (x *Exec) callCallback(st *State, cb *Callback, f FuncV, resType types.Type, pos token.Pos) Value {
	c := x.c
	ver, ok := st.ghost["cbver"]
	if !ok {
		ver = c.Const("cbver0", SInt)
		st.ghost["cbver"] = ver
	}
	if !cb.Pure {
		st.ghost["cbver"] = c.Fresh("cbver", SInt)
		return x.freshResult(st, "cb_"+f.Param.Name(), resType)
	}
	if resType == nil {
		return TupleV{}
	}
	if tu, ok := resType.(*types.Tuple); ok && tu.Len() == 0 {
		return TupleV{}
	}
	ls := leavesOf(resType)
	ts := make([]*Term, len(ls))
	for i, l := range ls {
		ts[i] = c.App("cb_"+f.Param.Name()+l.suffix, l.sort, ver)
	}
	v := x.unflatten(resType, &ts)
	x.assumeRanges(st, v, resType)
	return v
}

func (x *Exec) invoke(st *State, call *ssa.CallCommon, resType types.Type, pos token.Pos) Value {
	c := x.c
	recv := x.val(st, call.Value).(IfaceV)
	x.oblige(st, "nilptr", fmt.Sprintf("method call %s.%s on nil interface", call.Value.Name(), call.Method.Name()), pos, c.Neq(recv.Tag, c.Int(0)), nil, "")
	var args []Value
	for _, a := range call.Args {
		args = append(args, x.val(st, a))
	}
	fc := x.w.contractForMethod(call)
	if fc != nil {
		names := []string{"recv"}
		types_ := []types.Type{call.Value.Type()}
		vals := []Value{recv}
		sig := call.Method.Type().(*types.Signature)
		for k := 0; k < sig.Params().Len(); k++ {
			names = append(names, fc.ParamNames[k])
			types_ = append(types_, sig.Params().At(k).Type())
			vals = append(vals, args[k])
		}
		return x.applyContract(st, fc, names, types_, vals, sig.Results(), resType, pos, "iface."+call.Method.Name(), nil)
	}
	if ci, ok := x.curInstr.(ssa.CallInstruction); ok && ci.Common() == call {
		eff := x.w.dynamicEffects(ci)
		x.ledger[fmt.Sprintf("interface call %s.%s without contract: write sets of all implementations (CHA+VTA call graph) havoced, result unconstrained", typeKey(call.Value.Type()), call.Method.Name())] = true
		if !eff.all {
			x.applyEffects(st, eff)
			nt := x.c.Fresh("allocTop", SInt)
			x.hyps = append(x.hyps, x.c.Le(st.allocTop, nt))
			st.allocTop = nt
			return x.freshResult(st, "invoke_"+call.Method.Name(), resType)
		}
	}
	x.ledger[fmt.Sprintf("interface call %s.%s without contract: everything havoced", typeKey(call.Value.Type()), call.Method.Name())] = true
	x.havocForUnknown(st)
	return x.freshResult(st, "invoke_"+call.Method.Name(), resType)
}

func (x *Exec) callFunc(st *State, fn *ssa.Function, binds []Value, call *ssa.CallCommon, args []Value, resType types.Type, pos token.Pos) Value {
	key := funcKey(fn)
	fc := x.w.contracts[key]
	// function literals defined in the function under verification are inlined
	if fn.Parent() != nil && (fc == nil || !fc.NoInline) && x.depth < 4 {
		return x.inline(st, fn, binds, args, resType, pos)
	}
	if fc != nil && fc.Inline && x.depth < 4 && len(fn.Blocks) > 0 {
		return x.inline(st, fn, binds, args, resType, pos)
	}
	// a bound method value (p.m used as a function): the synthetic wrapper only calls the method on
	// the receiver it captured, so it is executed in place and the method's own contract applies
	if fc == nil && fn.Synthetic != "" && strings.HasSuffix(fn.Name(), "$bound") && len(fn.Blocks) == 1 && len(binds) == 1 && x.depth < 6 {
		return x.inline(st, fn, binds, args, resType, pos)
	}
	// model functions built into the engine
	if v, ok := x.intrinsic(st, fn, args, resType, pos); ok {
		return v
	}
	var preserves []Clause
	if x.fc != nil {
		preserves = x.fc.CallPreserves[lastName(key)]
	}
	if len(preserves) > 0 {
		x.checkClosuresPreserve(st, fn, call, args, preserves, pos)
	}
	sig := fn.Signature
	var names []string
	var tys []types.Type
	for _, p := range fn.Params {
		names = append(names, p.Name())
		tys = append(tys, p.Type())
	}
	if len(fn.Params) == 0 && (sig.Params().Len() > 0 || sig.Recv() != nil) {
		// external function without body: names from the signature / contract
		if sig.Recv() != nil {
			n := "recv"
			if fc != nil && len(fc.ParamNames) > 0 && fc.RecvName != "" {
				n = fc.RecvName
			}
			names = append(names, n)
			tys = append(tys, sig.Recv().Type())
		}
		for k := 0; k < sig.Params().Len(); k++ {
			n := sig.Params().At(k).Name()
			if fc != nil && k < len(fc.ParamNames) {
				n = fc.ParamNames[k]
			}
			names = append(names, n)
			tys = append(tys, sig.Params().At(k).Type())
		}
	}
	if fc == nil {
		fc = &FuncContract{Name: key}
		if !x.w.inRepo(fn) {
			if x.w.pureExternal(fn) {
				x.ledger["external function "+key+": no contract, assumed not to write through its arguments, result unconstrained"] = true
			} else {
				x.ledger["external function "+key+": no contract, reachable memory havoced, result unconstrained"] = true
			}
		} else {
			x.ledger["callee "+key+" has no contract: inferred write set havoced, result unconstrained"] = true
		}
	} else if fc.Trusted {
		x.ledger["trusted contract of "+key] = true
	}
	var atCall *State
	if len(preserves) > 0 {
		atCall = st.clone()
	}
	res := x.applyContract(st, fc, names, tys, args, sig.Results(), resType, pos, key, fn)
	if len(preserves) > 0 {
		// effects of the function values passed, then the preserved predicate
		x.havocClosureArgs(st, call, args)
		env := x.envFor(x.fn, st, x.entry, nil)
		env.locals = true
		env.pos = pos
		env.pre = atCall
		for _, cl := range preserves {
			x.assume(st, x.evalBool(cl.Expr, env))
		}
	}
	return res
}

func (x *Exec) closureArgs(args []Value) []FuncV {
	var out []FuncV
	for _, a := range args {
		if f, ok := a.(FuncV); ok && f.Fn != nil {
			out = append(out, f)
		}
	}
	return out
}

func (x *Exec) havocClosureArgs(st *State, call *ssa.CallCommon, args []Value) {
	for k, a := range args {
		f, ok := a.(FuncV)
		if !ok || f.Fn == nil {
			continue
		}
		eff := x.w.funcEffects(f.Fn)
		if eff.all {
			x.havocForUnknown(st)
		} else if locs, ok := x.closureWriteSet(st, f, eff); ok {
			for _, l := range locs {
				x.havocLoc(st, l)
			}
			nt := x.c.Fresh("allocTop", SInt)
			x.hyps = append(x.hyps, x.c.Le(st.allocTop, nt))
			st.allocTop = nt
		} else {
			x.applyEffects(st, eff)
		}
		if mc, ok := call.Args[k].(*ssa.MakeClosure); ok {
			cells := map[*ssa.Alloc]bool{}
			x.w.closureCellWrites(f.Fn, mc, cells)
			for _, cell := range sortedAllocs(cells) {
				if _, ok := st.cells[cell]; ok {
					t := deref(cell.Type())
					st.cells[cell] = x.freshValue("cl_"+cell.Comment, t)
					x.assumeRanges(st, st.cells[cell], t)
				}
			}
		}
	}
}

// closureWriteSet discovers the heap locations a function value writes by executing its body once,
// muted, from a state in which its (type-level) write set is havoced. The result is usable when no
// location depends on the havoced memory (then any number of calls writes the same locations).
func (x *Exec) closureWriteSet(st *State, f FuncV, eff *Effects) ([]loc, bool) {
	if x.recording != nil || x.depth > 3 {
		return nil, false
	}
	scratch := st.clone()
	mark := x.c.fresh
	x.applyEffects(scratch, eff)
	var locs []loc
	x.recording = &locs
	savedMute, savedHyps, savedCount := x.mute, len(x.hyps), x.c.fresh
	_ = savedCount
	x.mute = true
	ok := true
	func() {
		defer func() {
			if r := recover(); r != nil {
				if _, isU := r.(unsupportedErr); isU {
					ok = false
					return
				}
				panic(r)
			}
		}()
		var cargs []Value
		for _, p := range f.Fn.Params {
			cargs = append(cargs, x.freshValue("wsarg_"+p.Name(), p.Type()))
		}
		x.depth++
		x.runBody(f.Fn, scratch, cargs, f.Binds, x.w.contracts[funcKey(f.Fn)])
		x.depth--
	}()
	x.recording = nil
	x.mute = savedMute
	x.hyps = x.hyps[:savedHyps]
	if !ok {
		return nil, false
	}
	var out []loc
	seen := map[string]bool{}
	for _, l := range locs {
		if l.base != nil && x.c.dependsOnFreshSince(l.base, mark) {
			return nil, false
		}
		if l.kind == "cell" || l.kind == "prefix" {
			return nil, false
		}
		if l.kind == "elem1" && x.c.dependsOnFreshSince(l.idx, mark) {
			l = loc{kind: "elems", base: l.base, prefix: l.prefix, typ: l.typ}
		}
		key := fmt.Sprintf("%s|%s|%d", l.kind, l.prefix, l.base.id)
		if l.idx != nil {
			key += fmt.Sprintf("|%d", l.idx.id)
		}
		if !seen[key] {
			seen[key] = true
			out = append(out, l)
		}
	}
	return out, true
}

// checkClosuresPreserve: {P} f() {P} for every function value passed at this call site, from an
// arbitrary state satisfying P (P may mention old(): the function's entry state).
func (x *Exec) checkClosuresPreserve(st *State, callee *ssa.Function, call *ssa.CallCommon, args []Value, preserves []Clause, pos token.Pos) {
	for k, a := range args {
		f, ok := a.(FuncV)
		if !ok || f.Fn == nil {
			continue
		}
		s := st.clone()
		atCall := st.clone()
		x.havocClosureArgs(s, call, args)
		env := x.envFor(x.fn, s, x.entry, nil)
		env.locals = true
		env.pos = pos
		env.pre = atCall
		for _, cl := range preserves {
			x.assume(s, x.evalBool(cl.Expr, env))
		}
		// run the closure with unconstrained arguments
		var cargs []Value
		for _, p := range f.Fn.Params {
			v := x.freshValue("cbarg_"+p.Name(), p.Type())
			x.assumeRanges(s, v, p.Type())
			cargs = append(cargs, v)
		}
		x.depth++
		rets := x.runBody(f.Fn, s, cargs, f.Binds, x.w.contracts[funcKey(f.Fn)])
		x.depth--
		for _, r := range rets {
			envR := x.envFor(x.fn, r.st, x.entry, nil)
			envR.locals = true
			envR.pos = pos
			envR.pre = atCall
			for _, cl := range preserves {
				x.oblige(r.st, "callback-preserves", fmt.Sprintf("function value passed as argument %d of %s preserves: %s", k, lastName(funcKey(callee)), cl.Text), pos, x.evalBool(cl.Expr, envR), cl.Props, cl.Text)
			}
		}
	}
}

// applyContract: assert requires, havoc the frame, assume ensures.
func (x *Exec) applyContract(st *State, fc *FuncContract, names []string, tys []types.Type, args []Value, results *types.Tuple,
	resType types.Type, pos token.Pos, key string, fn *ssa.Function) Value {
	c := x.c
	pre := st.clone()
	binds := map[string]TV{}
	for k, n := range names {
		if k < len(args) {
			binds[n] = TV{args[k], tys[k]}
		}
	}
	var cpkg *types.Package
	if fn != nil && fn.Pkg != nil {
		cpkg = fn.Pkg.Pkg
	} else if fc.Pkg != "" {
		for _, p := range x.w.pkgs {
			if p.Types != nil && p.Types.Name() == fc.Pkg {
				cpkg = p.Types
			}
		}
	}
	envPre := &Env{x: x, st: pre, old: pre, names: binds, callee: true, pkg: cpkg}
	for _, cl := range fc.Requires {
		t := x.evalBool(cl.Expr, envPre)
		if x.fc != nil {
			if an, ok := x.fc.AssumeRequires[lastName(key)]; ok {
				x.ledger[fmt.Sprintf("%s: precondition of %s assumed at its call sites in %s", an, lastName(key), shortFunc(x.unitName()))] = true
				x.assume(st, t)
				continue
			}
		}
		x.oblige(st, "requires@call", fmt.Sprintf("precondition of %s: %s", key, cl.Text), pos, t, cl.Props, cl.Text)
	}
	// frame
	if !fc.Pure {
		if fc.ModifiesGiven {
			for _, m := range fc.Modifies {
				x.havocTarget(st, m, envPre)
			}
			if fc.Allocates || true {
				nt := c.Fresh("allocTop", SInt)
				x.hyps = append(x.hyps, c.Le(st.allocTop, nt))
				st.allocTop = nt
			}
		} else {
			var eff *Effects
			if fn != nil {
				eff = x.w.funcEffects(fn)
			} else {
				eff = newEffects()
				eff.all = true
			}
			if eff.all {
				x.havocForUnknown(st)
			} else {
				x.applyCallEffects(st, eff)
				// pointer arguments to local cells may be written
				for k, a := range args {
					if p, ok := a.(PtrV); ok && p.Kind == PLocal {
						if _, isPtr := tys[k].Underlying().(*types.Pointer); isPtr {
							t := deref(p.Cell.Type())
							st.cells[p.Cell] = x.freshValue("out_"+p.Cell.Comment, t)
							x.assumeRanges(st, st.cells[p.Cell], t)
						}
					}
				}
				nt := c.Fresh("allocTop", SInt)
				x.hyps = append(x.hyps, c.Le(st.allocTop, nt))
				st.allocTop = nt
			}
		}
	}
	// result
	var res Value
	var rt types.Type = resType
	if results != nil && results.Len() == 1 {
		rt = results.At(0).Type()
	} else if results != nil && results.Len() > 1 {
		rt = results
	}
	if fc.Pure && fc.Func && rt != nil && results.Len() == 1 {
		// pure function: result is a function of the arguments (and the heap it may read)
		res = x.pureResult(st, key, fc, args, tys, rt)
	} else {
		res = x.freshResult(st, "ret_"+lastName(key), rt)
	}
	envPost := &Env{x: x, st: st, old: pre, names: binds, callee: true, pkg: cpkg}
	x.bindResults(envPost, fc, results, res)
	// the callee's own ghost variables are unknown to its callers: unconstrained
	for _, g := range fc.Ghosts {
		if tv := x.eval(g.Init, envPre); x.scalar(tv.V).sort == SBool {
			envPost.names[g.Name] = TV{Sc{c.Fresh("cg_"+g.Name, SBool)}, types.Typ[types.Bool]}
		} else {
			envPost.names[g.Name] = TV{Sc{c.Fresh("cg_"+g.Name, SInt)}, types.Typ[types.Int]}
		}
	}
	for _, cl := range fc.Ensures {
		if cl.Hidden {
			continue // proved in the callee's body, not revealed to callers (keeps caller queries small)
		}
		// a clause that cannot be read at a call site (it mentions a local of the callee) is not used
		// there: fewer facts for the caller, never more
		if t, ok := x.evalBoolLenient(cl.Expr, envPost); ok {
			x.assume(st, t)
		} else {
			x.ledger["postcondition of "+key+" not usable at call sites (mentions the callee's locals): "+cl.Text] = true
		}
	}
	return res
}

func lastName(key string) string {
	if i := strings.LastIndexAny(key, ".)"); i >= 0 {
		return key[i+1:]
	}
	return key
}

func (x *Exec) bindResults(env *Env, fc *FuncContract, results *types.Tuple, res Value) {
	if results == nil || results.Len() == 0 {
		return
	}
	if results.Len() == 1 {
		tv := TV{res, results.At(0).Type()}
		env.names["result"] = tv
		if n := results.At(0).Name(); n != "" && n != "_" {
			env.resultNames = append(env.resultNames, n)
			env.names["result:"+n] = tv
		}
		return
	}
	tu := res.(TupleV)
	for k := 0; k < results.Len(); k++ {
		tv := TV{tu.E[k], results.At(k).Type()}
		env.names[fmt.Sprintf("result%d", k)] = tv
		if k == 0 {
			env.names["result"] = tv
		}
		if n := results.At(k).Name(); n != "" && n != "_" {
			env.names["result:"+n] = tv
		}
	}
}

// pureResult: uninterpreted function of the flattened arguments.
func (x *Exec) pureResult(st *State, key string, fc *FuncContract, args []Value, tys []types.Type, rt types.Type) Value {
	var ts []*Term
	for k, a := range args {
		ts = append(ts, x.specArgs(st, a, tys[k])...)
	}
	ls := leavesOf(rt)
	out := make([]*Term, len(ls))
	for i, l := range ls {
		out[i] = x.c.App("fn_"+key+l.suffix, l.sort, ts...)
	}
	v := x.unflatten(rt, &out)
	x.assumeRanges(st, v, rt)
	return v
}

// specArgs flattens a value for use as argument of an uninterpreted function:
// slices and strings are passed by content.
func (x *Exec) specArgs(st *State, v Value, t types.Type) []*Term {
	switch t.Underlying().(type) {
	case *types.Slice:
		s := x.seqOf(st, v, t)
		var out []*Term
		et := t.Underlying().(*types.Slice).Elem()
		for _, l := range leavesOf(et) {
			out = append(out, s.C[l.suffix])
		}
		return append(out, s.Off, s.Len)
	case *types.Basic:
		if isString(t) {
			s := x.seqOf(st, v, t)
			return []*Term{s.C[""], s.Off, s.Len}
		}
	case *types.Struct:
		sv := v.(StructV)
		su := t.Underlying().(*types.Struct)
		var out []*Term
		for i := 0; i < su.NumFields(); i++ {
			out = append(out, x.specArgs(st, sv.F[i], su.Field(i).Type())...)
		}
		return out
	}
	if sq, ok := v.(SeqV); ok {
		var keys []string
		for k := range sq.C {
			keys = append(keys, k)
		}
		sort.Strings(keys)
		var out []*Term
		for _, k := range keys {
			out = append(out, sq.C[k])
		}
		return append(out, sq.Off, sq.Len)
	}
	return x.flatten(v, t)
}

// inline executes a function literal's body in place.
func (x *Exec) inline(st *State, fn *ssa.Function, binds []Value, args []Value, resType types.Type, pos token.Pos) Value {
	x.depth++
	defer func() { x.depth-- }()
	fc := x.w.contracts[funcKey(fn)]
	saved := st.reach
	rets := x.runBody(fn, st.clone(), args, binds, fc)
	if len(rets) == 0 {
		// never returns (panics on all paths)
		st.reach = x.c.False()
		return x.freshResult(st, "noreturn", resType)
	}
	var ins []edgeState
	for _, r := range rets {
		ins = append(ins, edgeState{st: r.st})
	}
	merged := x.mergeStates(ins)
	_ = saved
	// merge results
	var res Value
	nres := len(rets[0].results)
	if nres > 0 {
		vals := make([]Value, nres)
		for k := 0; k < nres; k++ {
			v := rets[len(rets)-1].results[k]
			for r := len(rets) - 2; r >= 0; r-- {
				v = x.mergeValue(rets[r].st.reach, rets[r].results[k], v)
			}
			vals[k] = v
		}
		if nres == 1 {
			res = vals[0]
		} else {
			res = TupleV{E: vals}
		}
	} else {
		res = TupleV{}
	}
	*st = *merged
	return res
}

// havocTarget havocs the location(s) denoted by a modifies target.
func (x *Exec) havocTarget(st *State, m *CE, envPre *Env) {
	locs := x.targetLocs(m, envPre)
	for _, l := range locs {
		x.havocLoc(st, l)
	}
}

type loc struct {
	kind   string // "field" (Base ref, key prefix), "elems" (arr ref, elem key prefix), "box", "all-of-key"
	base   *Term
	prefix string
	typ    types.Type
	cell   *ssa.Alloc
	idx    *Term // "elem1": the single element (absolute index in the backing array)
}

func (x *Exec) havocLoc(st *State, l loc) {
	c := x.c
	if x.recording != nil {
		*x.recording = append(*x.recording, l)
	}
	switch l.kind {
	case "field", "box":
		// every leaf key under the prefix: H' = store(H, base, fresh)
		for _, lf := range leavesOf(l.typ) {
			k := l.prefix + lf.suffix
			h := x.heapGetK(st, k, ArrSort(SInt, lf.sort))
			nv := c.Fresh("hv_"+k, lf.sort)
			st.heap[k] = c.Store(h, l.base, nv)
		}
		// range facts for the new contents are assumed on load
	case "elems":
		for _, lf := range leavesOf(l.typ) {
			k := l.prefix + lf.suffix
			h := x.heapGetK(st, k, ArrSort(SInt, ArrSort(SInt, lf.sort)))
			nv := c.Fresh("hv_"+k, ArrSort(SInt, lf.sort))
			st.heap[k] = c.Store(h, l.base, nv)
		}
	case "elem1":
		for _, lf := range leavesOf(l.typ) {
			k := l.prefix + lf.suffix
			h := x.heapGetK(st, k, ArrSort(SInt, ArrSort(SInt, lf.sort)))
			nv := c.Fresh("hv_"+k, lf.sort)
			st.heap[k] = c.Store(h, l.base, c.Store(c.Select(h, l.base), l.idx, nv))
		}
	case "cell":
		t := deref(l.cell.Type())
		st.cells[l.cell] = x.freshValue("hv_"+l.cell.Comment, t)
		x.assumeRanges(st, st.cells[l.cell], t)
	case "prefix":
		x.havocKeyPrefix(st, l.prefix)
	}
}
