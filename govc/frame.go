package main

// Frame sweep (C19): "executing a parsed Program never modifies it" as a frame condition over the
// whole-program may-write summaries (effects.go), rebuilt from /repo on every run.
//
//   frame[Cnn] <name>: roots F G ... ; never-writes pkgA. pkgB. ... ; no-globals pkgA pkgB ... ;
//                      aliases T.f T.g ... @ W ... ; readers F ... ; accessors F ...
//
// obligations
//   never-writes: the may-write set of each root (its body and everything it can call, dynamic calls
//     resolved by CHA+VTA) contains no field, element, box or map component whose type belongs to
//     one of the listed packages;
//   no-globals: it contains no package-level variable of the listed packages (two interpreters
//     running the same Program share nothing else);
//   shared element types: the Program also owns slices/maps of types that are not specific to it
//     ([]float64, []string, []bool ...), for which a type-based summary says nothing. For these an
//     intraprocedural flow check runs over every repository function reachable from the roots: a
//     value loaded from a field of a listed package's struct (or from a declared alias field) may
//     only be read (index, range, len, slicing, lookup), copied into locals, or stored into a declared
//     alias field by a declared alias writer. Writing through it, appending to it, passing it to a
//     call (except the listed readers), returning it (except from listed accessors), capturing it in a
//     closure or storing it anywhere else is reported.

import (
	"fmt"
	"go/token"
	"go/types"
	"regexp"
	"sort"
	"strings"

	"golang.org/x/tools/go/ssa"
)

type FrameSpec struct {
	Name         string
	Roots        []string
	Never        []string // package names (with or without trailing dot)
	NoGlobals    []string
	Aliases      []string
	AliasWriters []string
	Readers      []string
	Accessors    []string
	CallbackCtx  []string // functions that only call the function values they are given: analysed per calling function
	Props        []string
	Where        string
}

func parseFrameSpec(rest string, props []string, where string) (*FrameSpec, error) {
	i := strings.Index(rest, ":")
	if i < 0 {
		return nil, fmt.Errorf("expected: frame <name>: roots ... ; never-writes ... ; ...")
	}
	s := &FrameSpec{Name: strings.TrimSpace(rest[:i]), Props: props, Where: where}
	for _, part := range strings.Split(rest[i+1:], ";") {
		f := strings.Fields(part)
		if len(f) == 0 {
			continue
		}
		switch f[0] {
		case "roots":
			s.Roots = append(s.Roots, f[1:]...)
		case "never-writes":
			for _, p := range f[1:] {
				s.Never = append(s.Never, strings.TrimSuffix(p, "."))
			}
		case "no-globals":
			s.NoGlobals = append(s.NoGlobals, f[1:]...)
		case "aliases":
			for i, w := range f[1:] {
				if w == "@" {
					s.Aliases = append(s.Aliases, f[1:1+i]...)
					s.AliasWriters = append(s.AliasWriters, f[2+i:]...)
					break
				}
			}
		case "readers":
			s.Readers = append(s.Readers, f[1:]...)
		case "accessors":
			s.Accessors = append(s.Accessors, f[1:]...)
		case "callback-context":
			s.CallbackCtx = append(s.CallbackCtx, f[1:]...)
		default:
			return nil, fmt.Errorf("unknown frame part %q", f[0])
		}
	}
	if len(s.Roots) == 0 || len(s.Never) == 0 {
		return nil, fmt.Errorf("frame needs roots and never-writes")
	}
	return s, nil
}

func (w *World) verifyFrame(sp *FrameSpec) (res *UnitResult) {
	res = &UnitResult{Name: "frame " + sp.Name, Kind: "sweep"}
	fc := &FuncContract{Name: "frame." + sp.Name, Props: sp.Props}
	x := NewExec(w, nil, fc)
	x.curProps = sp.Props
	res.Ctx = x
	add := func(name, desc string, ok bool) {
		x.count["frame"]++
		x.obls = append(x.obls, &Obligation{Name: fmt.Sprintf("frame.%s/%s", sp.Name, name), Kind: "frame-sweep", Func: "frame " + sp.Name,
			Desc: desc, Pos: sp.Where, Goal: x.c.Bool(ok), Props: sp.Props, Clause: "frame", ctx: x})
	}
	var neverRe []*regexp.Regexp
	for _, p := range sp.Never {
		neverRe = append(neverRe, regexp.MustCompile(`(^|[^A-Za-z0-9_.])`+regexp.QuoteMeta(p)+`\.`))
	}
	inNever := func(typeText string) bool {
		for _, re := range neverRe {
			if re.MatchString(typeText) {
				return true
			}
		}
		return false
	}
	reach := map[*ssa.Function]bool{}
	w.computeEffects()
	for _, r := range sp.Roots {
		fn := w.lookupFunc(r)
		if fn == nil {
			res.Err = "CHECK-ERROR: frame root " + r + " not found"
			return
		}
		// reachable functions and the union of their direct writes. Functions declared callback-context
		// (they call nothing dynamically but their own function-typed parameters: checked below) are
		// walked once per calling function, following only closures made by that caller.
		type visit struct{ f, ctx *ssa.Function }
		seenV := map[visit]bool{}
		eff := newEffects()
		firstWriter := map[string]string{}
		var walkE func(f, ctx *ssa.Function)
		walkE = func(f, ctx *ssa.Function) {
			if seenV[visit{f, ctx}] {
				return
			}
			seenV[visit{f, ctx}] = true
			reach[f] = true
			info := w.effInfos[f]
			if info == nil {
				return
			}
			if info.direct.all {
				eff.all = true
			}
			for p := range info.direct.prefixes {
				if !eff.prefixes[p] {
					eff.prefixes[p] = true
					firstWriter[p] = funcKey(f)
				}
			}
			if info.fixed {
				return // summary from a contract or a body-less function: nothing behind it is followed
			}
			for c := range info.callees {
				if ctx != nil && c.Parent() != nil && outermost(c) != outermost(ctx) {
					continue // a closure made by some other caller of this callback-context function
				}
				if contains(sp.CallbackCtx, funcKey(c)) {
					walkE(c, f)
				} else {
					walkE(c, nil)
				}
			}
		}
		walkE(fn, nil)
		writerOf := func(comp string) string { return firstWriter[comp] }
		for i, p := range sp.Never {
			var bad []string
			for comp := range eff.prefixes {
				if len(comp) > 2 && comp[1] == ':' && comp[0] != 'G' && neverRe[i].MatchString(comp[2:]) {
					bad = append(bad, comp)
				}
			}
			sort.Strings(bad)
			desc := fmt.Sprintf("nothing reachable from %s writes a component of package %s", r, p)
			if len(bad) > 0 {
				var ws []string
				for _, b := range bad {
					if len(ws) < 6 {
						ws = append(ws, b+" (written by "+writerOf(b)+")")
					}
				}
				desc += fmt.Sprintf("; MAY WRITE %d component(s): %s", len(bad), strings.Join(ws, ", "))
			}
			add(r+"/never-writes/"+p, desc, len(bad) == 0 && !eff.all)
		}
		if len(sp.NoGlobals) > 0 {
			var bad []string
			for comp := range eff.prefixes {
				if strings.HasPrefix(comp, "G:") {
					for _, p := range sp.NoGlobals {
						if strings.HasPrefix(comp[2:], p+".") && w.isRepoGlobal(p, strings.SplitN(comp[2+len(p)+1:], ".", 2)[0]) {
							bad = append(bad, comp+" (written by "+writerOf(comp)+")")
						}
					}
				}
			}
			sort.Strings(bad)
			desc := fmt.Sprintf("nothing reachable from %s writes a package-level variable of %s", r, strings.Join(sp.NoGlobals, ", "))
			if len(bad) > 0 {
				desc += "; MAY WRITE " + strings.Join(bad, ", ")
			}
			add(r+"/no-globals", desc, len(bad) == 0 && !eff.all)
		}
	}
	for _, name := range sp.CallbackCtx {
		f := w.lookupFunc(name)
		if f == nil {
			res.Err = "CHECK-ERROR: callback-context function " + name + " not found"
			return
		}
		if why := callsOnlyItsParams(f); why != "" {
			res.Err = "CHECK-ERROR: " + name + " is declared callback-context but " + why
			return
		}
	}
	// flow check of shared-type program slices and maps
	var fns []*ssa.Function
	for f := range reach {
		if w.inRepo(f) && len(f.Blocks) > 0 {
			if pos := f.Pos(); pos.IsValid() && strings.HasSuffix(w.fset.Position(pos).Filename, "_test.go") {
				continue
			}
			fns = append(fns, f)
		}
	}
	sort.Slice(fns, func(i, j int) bool { return funcKey(fns[i]) < funcKey(fns[j]) })
	nSources := 0
	for _, f := range fns {
		issues, sources := w.frameFlow(f, sp, inNever, x)
		nSources += sources
		if sources == 0 && len(issues) == 0 {
			continue
		}
		desc := fmt.Sprintf("%s only reads the %d program-owned slice/map value(s) of non-program-specific type it loads", funcKey(f), sources)
		if len(issues) > 0 {
			desc += "; BUT: " + strings.Join(issues, "; ")
		}
		add("flow/"+funcKey(f), desc, len(issues) == 0)
	}
	if nSources == 0 {
		res.Err = "CHECK-ERROR: the frame sweep found no load of a program-owned slice or map (vacuous)"
	}
	res.Ledger = append(res.Ledger,
		"frame sweep: may-write summaries are type-based (a write to a freshly allocated object of a program type would also be reported); dynamic calls resolved by CHA+VTA; no reflection-based or unsafe writes considered",
		"frame sweep: methods of *regexp.Regexp used at run time are assumed not to mutate the compiled regex observably (documented safe for concurrent use)")
	for _, l := range res.Ledger {
		x.ledger[l] = true
	}
	res.Obls = x.obls
	return
}

func (w *World) isRepoGlobal(pkgName, varName string) bool {
	for _, p := range w.prog.AllPackages() {
		if p.Pkg.Name() != pkgName {
			continue
		}
		if _, ok := p.Members[varName].(*ssa.Global); ok {
			// the package must be one of the repository's own
			for _, m := range p.Members {
				if fn, ok := m.(*ssa.Function); ok {
					return w.inRepo(fn)
				}
			}
		}
	}
	return false
}

// frameFlow: the intraprocedural flow check described at the top of the file.
func (w *World) frameFlow(fn *ssa.Function, sp *FrameSpec, inNever func(string) bool, x *Exec) (issues []string, sources int) {
	key := funcKey(outermost(fn))
	isAliasWriter := contains(sp.AliasWriters, key)
	shared := func(t types.Type) bool {
		switch t.Underlying().(type) {
		case *types.Slice, *types.Map:
			return !inNever(typeKey(t))
		}
		return false
	}
	aliasField := func(fa *ssa.FieldAddr) (string, bool) {
		st0 := deref(fa.X.Type())
		name := typeKey(st0) + "." + fieldName(st0, fa.Field)
		return name, contains(sp.Aliases, name)
	}
	isSourceAddr := func(a ssa.Value) bool {
		// a package-level slice or map of the module is shared by every interpreter: same rules
		if g, ok := a.(*ssa.Global); ok && g.Pkg != nil && w.isRepoGlobal(g.Pkg.Pkg.Name(), g.Name()) {
			return true
		}
		fa, ok := a.(*ssa.FieldAddr)
		if !ok {
			return false
		}
		if _, ok := aliasField(fa); ok {
			return true
		}
		return inNever(typeKey(deref(fa.X.Type())))
	}
	tv := map[ssa.Value]bool{}   // values that reference program-owned memory of shared type
	cell := map[ssa.Value]bool{} // local cells holding such a value
	srcSeen := map[ssa.Value]bool{}
	for changed := true; changed; {
		changed = false
		mark := func(v ssa.Value) {
			if !tv[v] {
				tv[v] = true
				changed = true
			}
		}
		for _, b := range fn.Blocks {
			for _, in := range b.Instrs {
				switch i := in.(type) {
				case *ssa.UnOp:
					if i.Op != token.MUL || !shared(i.Type()) {
						continue
					}
					if isSourceAddr(i.X) {
						if !srcSeen[i] {
							srcSeen[i] = true
							sources++
						}
						mark(i)
					} else if cell[i.X] {
						mark(i)
					}
				case *ssa.Field:
					if shared(i.Type()) && inNever(typeKey(i.X.Type())) {
						if !srcSeen[i] {
							srcSeen[i] = true
							sources++
						}
						mark(i)
					}
				case *ssa.Slice:
					if tv[i.X] {
						mark(i)
					}
				case *ssa.Phi:
					for _, e := range i.Edges {
						if tv[e] {
							mark(i)
						}
					}
				case *ssa.ChangeType:
					if tv[i.X] {
						mark(i)
					}
				case *ssa.Convert:
					if tv[i.X] && shared(i.Type()) {
						mark(i)
					}
				case *ssa.Store:
					if tv[i.Val] {
						if a, ok := i.Addr.(*ssa.Alloc); ok && !cell[a] {
							cell[a] = true
							changed = true
						}
					}
				}
			}
		}
	}
	at := func(in ssa.Instruction) string { return x.pos(in.Pos()) }
	for _, b := range fn.Blocks {
		for _, in := range b.Instrs {
			switch i := in.(type) {
			case *ssa.Store:
				if ia, ok := i.Addr.(*ssa.IndexAddr); ok && tv[ia.X] {
					issues = append(issues, "element of a program-owned slice assigned at "+at(in))
				}
				if tv[i.Val] {
					switch a := i.Addr.(type) {
					case *ssa.Alloc:
						if a.Heap {
							// a captured or escaping local: only closures of this function can see it
							for _, r := range *a.Referrers() {
								if _, ok := r.(*ssa.MakeClosure); ok {
									issues = append(issues, "program-owned slice/map captured by a closure at "+at(r))
								}
							}
						}
					case *ssa.FieldAddr:
						name, isAlias := aliasField(a)
						if !isAlias || !isAliasWriter {
							issues = append(issues, "program-owned slice/map stored into "+name+" at "+at(in)+" (not a declared alias field written by a declared alias writer)")
						}
					default:
						issues = append(issues, "program-owned slice/map stored into memory at "+at(in))
					}
				}
				// (an alias field may also be given a value that is not the program's: everything loaded from
				// it is then held to the read-only rules although it need not be -- stricter, never weaker)
			case *ssa.MapUpdate:
				if tv[i.Map] {
					issues = append(issues, "program-owned map updated at "+at(in))
				}
			case *ssa.IndexAddr:
				if tv[i.X] {
					for _, r := range *i.Referrers() {
						switch u := r.(type) {
						case *ssa.UnOp:
							if u.Op == token.MUL {
								continue
							}
						case *ssa.DebugRef:
							continue
						case *ssa.Store:
							if u.Addr == ssa.Value(i) {
								continue // reported above
							}
						}
						issues = append(issues, "address of an element of a program-owned slice taken at "+at(r))
					}
				}
			case *ssa.Return:
				for _, r := range i.Results {
					if tv[r] && !contains(sp.Accessors, key) {
						issues = append(issues, "program-owned slice/map returned at "+at(in))
					}
				}
			case *ssa.MakeInterface:
				if tv[i.X] {
					issues = append(issues, "program-owned slice/map converted to an interface at "+at(in))
				}
			case *ssa.MakeClosure:
				for _, bnd := range i.Bindings {
					if tv[bnd] {
						issues = append(issues, "program-owned slice/map captured by a closure at "+at(in))
					}
				}
			case *ssa.Send:
				if tv[i.X] {
					issues = append(issues, "program-owned slice/map sent on a channel at "+at(in))
				}
			case ssa.CallInstruction:
				call := i.Common()
				for ai, a := range call.Args {
					if !tv[a] {
						continue
					}
					if bi, ok := call.Value.(*ssa.Builtin); ok {
						switch bi.Name() {
						case "len", "cap":
							continue
						case "append":
							if ai > 0 {
								continue // appended from: read only
							}
						case "copy":
							if ai == 1 {
								continue // copied from
							}
						}
						issues = append(issues, "program-owned slice/map passed to "+bi.Name()+" at "+at(in))
						continue
					}
					callee := ""
					if f, ok := call.Value.(*ssa.Function); ok {
						callee = funcKey(f)
					}
					if callee != "" && contains(sp.Readers, callee) {
						continue
					}
					issues = append(issues, fmt.Sprintf("program-owned slice/map passed to %s at %s (not a declared reader)", callee, at(in)))
				}
			}
		}
	}
	return
}

// callsOnlyItsParams: every dynamic call in f (not in closures of f: it must have none) is a call of
// one of f's own function-typed parameters.
func callsOnlyItsParams(f *ssa.Function) string {
	if len(f.AnonFuncs) > 0 {
		return "it makes closures itself"
	}
	for _, b := range f.Blocks {
		for _, in := range b.Instrs {
			ci, ok := in.(ssa.CallInstruction)
			if !ok {
				continue
			}
			call := ci.Common()
			if call.IsInvoke() {
				return "it calls an interface method"
			}
			switch v := call.Value.(type) {
			case *ssa.Function, *ssa.Builtin:
				continue
			case *ssa.Parameter:
				continue
			case *ssa.UnOp:
				if a, ok := v.X.(*ssa.Alloc); ok && v.Op == token.MUL {
					okAll := true
					for _, r := range *a.Referrers() {
						if st, ok := r.(*ssa.Store); ok && st.Addr == ssa.Value(a) {
							if _, isParam := st.Val.(*ssa.Parameter); !isParam {
								okAll = false
							}
						}
					}
					if okAll {
						continue
					}
				}
			}
			return "it calls a function value that is not one of its parameters"
		}
	}
	return ""
}
