package main

// Symbolic execution of one SSA function with state merging over the
// loop-cut CFG; emits named obligations.

import (
	"fmt"
	"go/constant"
	"go/token"
	"go/types"
	"math/big"
	"os"
	"regexp"
	"sort"
	"strings"

	"golang.org/x/tools/go/ssa"
)

type State struct {
	reach    *Term
	cells    map[*ssa.Alloc]Value
	heap     map[string]*Term
	gen      int
	allocTop *Term
	ghost    map[string]*Term
	tags     map[string]int // heap key prefixes havoced before first touch
	splits   []*Term        // reach conditions of the states merged at the most recent join (exactly one holds)
}

func (s *State) clone() *State {
	n := &State{reach: s.reach, gen: s.gen, allocTop: s.allocTop,
		cells: make(map[*ssa.Alloc]Value, len(s.cells)), heap: make(map[string]*Term, len(s.heap)), ghost: make(map[string]*Term, len(s.ghost))}
	for k, v := range s.cells {
		n.cells[k] = v
	}
	for k, v := range s.heap {
		n.heap[k] = v
	}
	for k, v := range s.ghost {
		n.ghost[k] = v
	}
	n.splits = s.splits
	n.tags = make(map[string]int, len(s.tags))
	for k, v := range s.tags {
		n.tags[k] = v
	}
	return n
}

type Obligation struct {
	Name   string
	Kind   string
	Func   string
	Desc   string
	Pos    string
	Goal   *Term
	NHyps  int
	Props  []string
	Cover  bool // satisfiability expected (vacuity guard)
	Clause string
	ctx    *Exec
	block  *ssa.BasicBlock // block of the top-level function in which the obligation arises
	GetValues []*Term
	// results
	Verdict string // unsat | sat | unknown | timeout
	Solver  string
	Seconds float64
	Model   string
	File    string
	SatMode string // which query form was satisfiable: ground | full
	SmallScope []*Term // extra constraints for small-scope model extraction
	Splits     []*Term // case split offered to the discharge step: the reach conditions merged at the last join
	caseMap    map[*Term]*Term // (derived obligation) one case: reach conditions replaced by true / false
	caseFacts  []*Term
	caseName   string
}

type Exec struct {
	c     *Ctx
	w     *World
	fn    *ssa.Function // top-level function under verification
	fc    *FuncContract
	regs  map[ssa.Value]Value
	hyps  []*Term
	obls  []*Obligation
	count map[string]int
	gens  int

	opaquePtrs map[string]*Term
	opaqueBack map[*Term]PtrV
	funcIDs    map[string]*Term
	funcBack   map[*Term]FuncV
	escaped    map[*ssa.Alloc]bool
	strLits    map[string]StrV
	ranged     map[*Term]bool
	typeIDs    map[string]int64

	entry    *State
	params   map[string]TV // parameter entry values by name
	ledger   map[string]bool
	depth    int
	curProps []string
	inlineOf map[*ssa.Function]bool
	strKeys  []strKey
	loopPre  map[*ssa.BasicBlock]*State
	rangedAt   map[*Term]bool
	symCache   map[*Term][]string
	stepApplied map[string]int
	deferStack  map[*ssa.Function][]*ssa.Defer // defer statements of the entry block, in program order
	curInstr    ssa.Instruction
	obligedAt  map[*Term]*ssa.BasicBlock  // safety condition -> block where it was first obliged
	skipped    int                        // safety conditions not re-queried (syntactically known)
	curBlock   *ssa.BasicBlock            // current block of the top-level function
	reachBlock map[*Term]*ssa.BasicBlock  // reach condition -> block (to find the origin of guarded hypotheses)
	canReach   map[*ssa.BasicBlock]map[*ssa.BasicBlock]bool
	loopTags  map[int]bool // havoc tags that stem from loop-entry havocs
	inFrame   bool
	recording *[]loc // when set: heap writes are recorded (closure write-set discovery)
	mute      bool   // when set: no obligations are emitted
	edgeReach map[[2]*ssa.BasicBlock]*Term
	ghostPre  *State // state just before the call whose ghost updates are being evaluated (pre(...) there)
	privCells []*ssa.Alloc // private slice variables of the function under verification (private.go)
	privBoxes []*ssa.Alloc // private captured variables of the function under verification (private.go)
}

func NewExec(w *World, fn *ssa.Function, fc *FuncContract) *Exec {
	bv := fc != nil && fc.Ints == "bv64"
	return &Exec{c: NewCtx(bv), w: w, fn: fn, fc: fc, regs: map[ssa.Value]Value{}, count: map[string]int{},
		opaquePtrs: map[string]*Term{}, opaqueBack: map[*Term]PtrV{}, funcIDs: map[string]*Term{}, funcBack: map[*Term]FuncV{},
		escaped: map[*ssa.Alloc]bool{}, strLits: map[string]StrV{}, ranged: map[*Term]bool{}, typeIDs: map[string]int64{},
		params: map[string]TV{}, ledger: map[string]bool{}, inlineOf: map[*ssa.Function]bool{}, edgeReach: map[[2]*ssa.BasicBlock]*Term{}}
}

func (x *Exec) noteEscape(p PtrV) {
	if p.Kind == PLocal && p.Cell != nil {
		x.escaped[p.Cell] = true
	}
}

func (x *Exec) pos(p token.Pos) string {
	if !p.IsValid() {
		return ""
	}
	ps := x.w.fset.Position(p)
	return fmt.Sprintf("%s:%d", relPath(ps.Filename), ps.Line)
}

var repoRoot = "/repo"

func relPath(f string) string { return strings.TrimPrefix(f, repoRoot+"/") }

func (x *Exec) assume(st *State, fact *Term) {
	f := x.c.Implies(st.reach, fact)
	if x.c.isTrue(f) {
		return
	}
	x.hyps = append(x.hyps, f)
}

func (x *Exec) assumeRanges(st *State, v Value, t types.Type) {
	for _, f := range x.rangeFacts(v, t, st) {
		if f.bound {
			continue // (facts about terms under a binder cannot be global hypotheses)
		}
		// type invariants hold unconditionally for the terms involved; they are recorded under the
		// reach condition of the point of use only so that sibling branches can be pruned from queries
		g := x.c.Implies(st.reach, f)
		if x.rangedAt[g] {
			continue
		}
		if x.rangedAt == nil {
			x.rangedAt = map[*Term]bool{}
		}
		x.rangedAt[g] = true
		x.ranged[f] = true
		x.hyps = append(x.hyps, g)
	}
}

func (x *Exec) oblige(st *State, kind, desc string, p token.Pos, cond *Term, props []string, clause string) *Obligation {
	if x.mute {
		return nil
	}
	if x.fc != nil && x.fc.AssumeKinds != nil {
		if an, ok := x.fc.AssumeKinds[kind]; ok {
			x.ledger[fmt.Sprintf("%s: %s conditions assumed (not proved) in %s", an, kind, shortFunc(x.unitName()))] = true
			x.assume(st, cond)
			return nil
		}
	}
	switch kind {
	case "nilptr", "bounds", "slice", "nonzero", "no-overflow", "assert-type", "nilmap", "makeslice":
		// a safety condition that is literally an unconditional hypothesis, or was already
		// obliged (hence assumed) at a point that dominates this one, needs no second query
		if x.c.isTrue(cond) || x.ranged[cond] {
			x.skipped++
			return nil
		}
		if prev, ok := x.obligedAt[cond]; ok && x.curBlock != nil && prev.Parent() == x.curBlock.Parent() && prev.Dominates(x.curBlock) && x.depth == 0 {
			x.skipped++
			return nil
		}
		if x.curBlock != nil && x.depth == 0 {
			if x.obligedAt == nil {
				x.obligedAt = map[*Term]*ssa.BasicBlock{}
			}
			if _, ok := x.obligedAt[cond]; !ok {
				x.obligedAt[cond] = x.curBlock
			}
		}
	}
	goal := x.c.Implies(st.reach, cond)
	x.count[kind]++
	fname := x.unitName()
	ob := &Obligation{Name: fmt.Sprintf("%s/%s/%d", shortFunc(fname), kind, x.count[kind]), Kind: kind, Func: fname,
		Desc: desc, Pos: x.pos(p), Goal: goal, NHyps: len(x.hyps), Props: props, Clause: clause, ctx: x}
	if len(props) == 0 {
		ob.Props = x.curProps
		switch kind {
		case "nilptr", "bounds", "slice", "nonzero", "no-overflow", "assert-type", "nilmap", "makeslice", "panic-unreachable", "requires@call":
			if x.fc != nil && len(x.fc.SafetyProps) > 0 {
				ob.Props = x.fc.SafetyProps
			}
		}
	}
	ob.block = x.curBlock
	if len(st.splits) >= 2 && len(st.splits) <= 6 {
		ob.Splits = st.splits
	}
	x.obls = append(x.obls, ob)
	switch kind {
	case "ensures", "frame", "inv-keep", "callback-preserves", "step":
		// nothing executes after these points on the same path: not needed as hypotheses
	default:
		x.hyps = append(x.hyps, goal) // assert, then assume
	}
	return ob
}

func (x *Exec) cover(st *State, desc string, p token.Pos, cond *Term, props []string) {
	if x.mute {
		return
	}
	x.count["cover"]++
	fname := x.unitName()
	ob := &Obligation{Name: fmt.Sprintf("%s/cover/%d", shortFunc(fname), x.count["cover"]), Kind: "cover", Func: fname,
		Desc: desc, Pos: x.pos(p), Goal: x.c.Not(x.c.And(st.reach, cond)), NHyps: len(x.hyps), Props: props, Cover: true, ctx: x}
	x.obls = append(x.obls, ob)
}

func (x *Exec) unitName() string {
	if x.fn != nil {
		return x.fn.String()
	}
	return x.fc.Name
}

func shortFunc(s string) string {
	s = strings.ReplaceAll(s, "github.com/benhoyt/goawk/", "")
	s = strings.ReplaceAll(s, "internal/", "")
	return s
}

// ---- heap ------------------------------------------------------------------------

func (x *Exec) heapGet(st *State, key string, sort Sort) *Term {
	if t, ok := st.heap[key]; ok {
		return t
	}
	t := x.c.Const(fmt.Sprintf("H%d_%s", st.gen, sanitize(key)), sort)
	st.heap[key] = t
	return t
}

func (x *Exec) havocAll(st *State) {
	x.gens++
	st.gen = x.gens
	st.heap = map[string]*Term{}
	st.tags = map[string]int{}
}

func (x *Exec) havocKeyPrefix(st *State, prefix string) {
	// keys are created lazily, so a prefix havoc must also affect keys not yet
	// materialised: record by bumping a per-prefix generation.
	for _, k := range sortedKeys(st.heap) {
		t := st.heap[k]
		if keyMatches(k, prefix) {
			st.heap[k] = x.c.Fresh("Hh_"+k, t.sort)
			if os.Getenv("GOVC_DEBUG_HAVOC") != "" && strings.Contains(k, os.Getenv("GOVC_DEBUG_HAVOC")) && x.curInstr != nil {
				fmt.Fprintf(os.Stderr, "havoc %s -> %s at %s (%T %s)\n", k, st.heap[k].op, x.pos(x.curInstr.Pos()), x.curInstr, x.curInstr)
			}
		}
	}
	// unmaterialised keys: remember the prefix; heapGet for a key matching a
	// remembered prefix must not return the entry constant.
	if st.tags == nil {
		st.tags = map[string]int{}
	}
	x.gens++
	st.tags[prefix] = x.gens
}

func keyMatches(key, prefix string) bool {
	if prefix == "*" {
		return true
	}
	if !strings.HasPrefix(key, prefix) {
		return false
	}
	rest := key[len(prefix):]
	return rest == "" || rest[0] == '.' || rest[0] == '#' || rest[0] == '['
}

func (x *Exec) heapGetK(st *State, key string, sort Sort) *Term {
	if t, ok := st.heap[key]; ok {
		return t
	}
	// was a matching prefix havoced before the first touch?
	var tags []string
	onlyLoop := true
	for _, g := range sortedKeys(st.tags) {
		v := st.tags[g]
		if keyMatches(key, g) {
			tags = append(tags, fmt.Sprint(v))
			if !x.loopTags[v] {
				onlyLoop = false
			}
		}
	}
	if len(tags) > 0 {
		sort2 := sort
		sortStrings(tags)
		name := fmt.Sprintf("H%d_%s_h%s", st.gen, sanitize(key), sanitize(strings.Join(tags, "_")))
		_, existed := x.c.tab[name+":"+string(x.c.rs(sort2))]
		t := x.c.Const(name, sort2)
		st.heap[key] = t
		// A component first touched after loop havocs only: the function's frame (proved as loop
		// invariant for every materialised component) relates it to the entry heap.
		if !existed && onlyLoop && st.gen == 0 && x.fc != nil && x.fc.ModifiesGiven && x.entry != nil && x.fn != nil && !x.inFrame {
			x.inFrame = true
			tmp := &State{reach: x.c.True(), heap: map[string]*Term{key: t}, tags: map[string]int{}, cells: st.cells, allocTop: st.allocTop}
			for _, fo := range x.frameGoals(tmp, x.fc) {
				x.hyps = append(x.hyps, fo.goal)
			}
			x.inFrame = false
		}
		return t
	}
	return x.heapGet(st, key, sort)
}

func sortStrings(s []string) { sort.Strings(s) }

func fieldPathInfo(named *types.Named, path []int) (prefix string, ft types.Type) {
	var t types.Type = named
	for _, i := range path {
		s := t.Underlying().(*types.Struct)
		prefix += "." + s.Field(i).Name()
		t = s.Field(i).Type()
	}
	return prefix, t
}

// loadPtr reads a value of type t through pointer p.
func (x *Exec) loadPtr(st *State, p PtrV, t types.Type) Value {
	c := x.c
	switch p.Kind {
	case PLocal:
		v, ok := st.cells[p.Cell]
		if !ok {
			panic(unsupported("load of unset cell %s", p.Cell.Name()))
		}
		cur := v
		ct := p.Cell.Type().(*types.Pointer).Elem()
		for _, i := range p.Path {
			cur = cur.(StructV).F[i]
			ct = ct.Underlying().(*types.Struct).Field(i).Type()
		}
		_ = ct
		return cur
	case PField:
		prefix, _ := fieldPathInfo(p.Struct, p.Path)
		base := "F:" + typeKey(p.Struct) + prefix
		ls := leavesOf(t)
		ts := make([]*Term, len(ls))
		for i, l := range ls {
			ts[i] = c.Select(x.heapGetK(st, base+l.suffix, ArrSort(SInt, l.sort)), p.Base)
		}
		v := x.unflatten(t, &ts)
		x.assumeRanges(st, v, t)
		return v
	case PRef:
		if named, _, ok := isNamedStruct(t); ok {
			return x.loadPtr(st, PtrV{Kind: PField, Base: p.Base, Struct: named}, t)
		}
		if _, ok := t.Underlying().(*types.Struct); ok {
			panic(unsupported("load of anonymous struct through pointer"))
		}
		base := "B:" + typeKey(t)
		ls := leavesOf(t)
		ts := make([]*Term, len(ls))
		for i, l := range ls {
			ts[i] = c.Select(x.heapGetK(st, base+l.suffix, ArrSort(SInt, l.sort)), p.Base)
		}
		v := x.unflatten(t, &ts)
		x.assumeRanges(st, v, t)
		return v
	case PElem:
		et := p.Elem
		prefix := ""
		ft := et
		if len(p.Path) > 0 {
			named, _, ok := isNamedStruct(et)
			if !ok {
				panic(unsupported("path into non-named element"))
			}
			prefix, ft = fieldPathInfo(named, p.Path)
		}
		base := "E:" + typeKey(et) + prefix
		ls := leavesOf(ft)
		ts := make([]*Term, len(ls))
		for i, l := range ls {
			ts[i] = c.Select(c.Select(x.heapGetK(st, base+l.suffix, ArrSort(SInt, ArrSort(SInt, l.sort))), p.Base), p.Idx)
		}
		v := x.unflatten(ft, &ts)
		x.assumeRanges(st, v, ft)
		return v
	case PGlobal:
		key := "G:" + p.Global.Pkg.Pkg.Name() + "." + p.Global.Name()
		gt := p.Global.Type().(*types.Pointer).Elem()
		prefix := ""
		ft := gt
		if len(p.Path) > 0 {
			named, _, ok := isNamedStruct(gt)
			if !ok {
				panic(unsupported("path into non-named global"))
			}
			prefix, ft = fieldPathInfo(named, p.Path)
		}
		ls := leavesOf(ft)
		ts := make([]*Term, len(ls))
		for i, l := range ls {
			ts[i] = x.heapGetK(st, key+prefix+l.suffix, l.sort)
		}
		v := x.unflatten(ft, &ts)
		x.assumeRanges(st, v, ft)
		// a package-level error variable initialised by errors.New / fmt.Errorf in its package's init
		// keeps a non-nil value (assumption: nobody assigns nil to io.EOF and its like)
		if iv, isI := v.(IfaceV); isI && len(p.Path) == 0 && x.w.errorGlobal(p.Global) {
			x.hyps = append(x.hyps, x.c.Neq(iv.Tag, x.c.Int(0)))
			x.ledger["package-level error variables initialised by errors.New/fmt.Errorf are assumed to stay non-nil ("+p.Global.Pkg.Pkg.Name()+"."+p.Global.Name()+")"] = true
		}
		return v
	}
	panic(unsupported("load through pointer kind %d", p.Kind))
}

func (x *Exec) storePtr(st *State, p PtrV, t types.Type, v Value) {
	c := x.c
	switch p.Kind {
	case PLocal:
		if len(p.Path) == 0 {
			st.cells[p.Cell] = v
			return
		}
		st.cells[p.Cell] = setPath(st.cells[p.Cell], p.Path, v)
		return
	case PField:
		prefix, _ := fieldPathInfo(p.Struct, p.Path)
		base := "F:" + typeKey(p.Struct) + prefix
		if x.recording != nil {
			*x.recording = append(*x.recording, loc{kind: "field", base: p.Base, prefix: base, typ: t})
		}
		ls := leavesOf(t)
		ts := x.flatten(v, t)
		for i, l := range ls {
			k := base + l.suffix
			st.heap[k] = c.Store(x.heapGetK(st, k, ArrSort(SInt, l.sort)), p.Base, ts[i])
		}
		return
	case PRef:
		if named, _, ok := isNamedStruct(t); ok {
			x.storePtr(st, PtrV{Kind: PField, Base: p.Base, Struct: named}, t, v)
			return
		}
		base := "B:" + typeKey(t)
		if x.recording != nil {
			*x.recording = append(*x.recording, loc{kind: "box", base: p.Base, prefix: base, typ: t})
		}
		ls := leavesOf(t)
		ts := x.flatten(v, t)
		for i, l := range ls {
			k := base + l.suffix
			st.heap[k] = c.Store(x.heapGetK(st, k, ArrSort(SInt, l.sort)), p.Base, ts[i])
		}
		return
	case PElem:
		et := p.Elem
		prefix := ""
		ft := et
		if len(p.Path) > 0 {
			named, _, _ := isNamedStruct(et)
			prefix, ft = fieldPathInfo(named, p.Path)
		}
		base := "E:" + typeKey(et) + prefix
		if x.recording != nil {
			*x.recording = append(*x.recording, loc{kind: "elems", base: p.Base, prefix: "E:" + typeKey(et), typ: et})
		}
		ls := leavesOf(ft)
		ts := x.flatten(v, ft)
		for i, l := range ls {
			k := base + l.suffix
			h := x.heapGetK(st, k, ArrSort(SInt, ArrSort(SInt, l.sort)))
			st.heap[k] = c.Store(h, p.Base, c.Store(c.Select(h, p.Base), p.Idx, ts[i]))
		}
		return
	case PGlobal:
		key := "G:" + p.Global.Pkg.Pkg.Name() + "." + p.Global.Name()
		gt := p.Global.Type().(*types.Pointer).Elem()
		prefix := ""
		ft := gt
		if len(p.Path) > 0 {
			named, _, _ := isNamedStruct(gt)
			prefix, ft = fieldPathInfo(named, p.Path)
		}
		ls := leavesOf(ft)
		ts := x.flatten(v, ft)
		for i, l := range ls {
			st.heap[key+prefix+l.suffix] = ts[i]
		}
		return
	}
	panic(unsupported("store through pointer kind %d", p.Kind))
}

func setPath(cur Value, path []int, v Value) Value {
	if len(path) == 0 {
		return v
	}
	s := cur.(StructV)
	n := StructV{F: append([]Value{}, s.F...)}
	n.F[path[0]] = setPath(s.F[path[0]], path[1:], v)
	return n
}

// allocRef returns a fresh reference, distinct from every existing one.
func (x *Exec) allocRef(st *State) *Term {
	r := st.allocTop
	nt := x.c.Fresh("allocTop", SInt)
	x.hyps = append(x.hyps, x.c.Implies(st.reach, x.c.Eq(nt, x.c.Add(r, x.c.Int(1)))))
	// keep allocTop symbolic but bounded so that math and bv agree
	st.allocTop = nt
	return r
}

// seqOf converts a slice/string value to its abstract sequence in state st.
func (x *Exec) seqOf(st *State, v Value, t types.Type) SeqV {
	switch s := v.(type) {
	case SeqV:
		return s
	case SliceV:
		et := t.Underlying().(*types.Slice).Elem()
		out := SeqV{C: map[string]*Term{}, Off: s.Off, Len: s.Len}
		for _, l := range leavesOf(et) {
			out.C[l.suffix] = x.c.Select(x.heapGetK(st, "E:"+typeKey(et)+l.suffix, ArrSort(SInt, ArrSort(SInt, l.sort))), s.Arr)
		}
		return out
	case StrV:
		return SeqV{C: map[string]*Term{"": x.strContent(s.Ref)}, Off: s.Off, Len: s.Len}
	}
	panic(unsupported("seqOf %T", v))
}

func (x *Exec) strContent(ref *Term) *Term {
	return x.c.App("StrElem", ArrSort(SInt, SInt), ref)
}

func (x *Exec) strLit(s string) StrV {
	if v, ok := x.strLits[s]; ok {
		return v
	}
	c := x.c
	ref := c.Const(fmt.Sprintf("strlit_%d", len(x.strLits)), SInt)
	v := StrV{ref, c.Int(0), c.Int(int64(len(s)))}
	x.strLits[s] = v
	// literal refs are negative and distinct: never confused with allocated refs
	x.hyps = append(x.hyps, c.Eq(ref, c.Int(-int64(len(x.strLits))-1000)))
	if len(s) <= 64 {
		content := x.strContent(ref)
		for i := 0; i < len(s); i++ {
			x.hyps = append(x.hyps, c.Eq(c.Select(content, c.Int(int64(i))), c.Int(int64(s[i]))))
		}
	}
	return v
}

// ---- running a body --------------------------------------------------------------

type retInfo struct {
	st      *State
	results []Value
	pos     token.Pos
	via     string // for duplicated return blocks: where the path comes from
	blk     *ssa.BasicBlock
}

type loopInfo struct {
	header  *ssa.BasicBlock
	blocks  map[*ssa.BasicBlock]bool
	ordinal int
	minPos  token.Pos
	clearChecked bool
	clearRange   *ssa.Range
}

func findLoops(fn *ssa.Function) map[*ssa.BasicBlock]*loopInfo {
	loops := map[*ssa.BasicBlock]*loopInfo{}
	for _, b := range fn.Blocks {
		for _, s := range b.Succs {
			if s.Dominates(b) { // back edge b -> s
				li := loops[s]
				if li == nil {
					li = &loopInfo{header: s, blocks: map[*ssa.BasicBlock]bool{s: true}}
					loops[s] = li
				}
				// natural loop: all blocks that reach b without passing through s
				var stack []*ssa.BasicBlock
				if !li.blocks[b] {
					li.blocks[b] = true
					stack = append(stack, b)
				}
				for len(stack) > 0 {
					n := stack[len(stack)-1]
					stack = stack[:len(stack)-1]
					for _, p := range n.Preds {
						if !li.blocks[p] {
							li.blocks[p] = true
							stack = append(stack, p)
						}
					}
				}
			}
		}
	}
	var list []*loopInfo
	for _, li := range loops {
		for b := range li.blocks {
			for _, in := range b.Instrs {
				if p := in.Pos(); p.IsValid() && (li.minPos == 0 || p < li.minPos) {
					li.minPos = p
				}
			}
		}
		list = append(list, li)
	}
	sort.Slice(list, func(i, j int) bool {
		if list[i].minPos != list[j].minPos {
			return list[i].minPos < list[j].minPos
		}
		if len(list[i].blocks) != len(list[j].blocks) {
			return len(list[i].blocks) > len(list[j].blocks)
		}
		return list[i].header.Index < list[j].header.Index
	})
	for i, li := range list {
		li.ordinal = i + 1
	}
	return loops
}

func rpo(fn *ssa.Function) []*ssa.BasicBlock {
	seen := map[*ssa.BasicBlock]bool{}
	var post []*ssa.BasicBlock
	var dfs func(b *ssa.BasicBlock)
	dfs = func(b *ssa.BasicBlock) {
		seen[b] = true
		for _, s := range b.Succs {
			if !seen[s] && !s.Dominates(b) {
				dfs(s)
			}
		}
		post = append(post, b)
	}
	if len(fn.Blocks) > 0 {
		dfs(fn.Blocks[0])
	}
	for i, j := 0, len(post)-1; i < j; i, j = i+1, j-1 {
		post[i], post[j] = post[j], post[i]
	}
	return post
}

type edgeState struct {
	st   *State
	from *ssa.BasicBlock
}

// runBody executes fn's body from state st0 with the given parameter and free
// variable values; returns the states at each return.
func (x *Exec) runBody(fn *ssa.Function, st0 *State, params []Value, freevars []Value, fc *FuncContract) []retInfo {
	if len(fn.Blocks) == 0 {
		panic(unsupported("function %s has no body", fn))
	}
	for i, p := range fn.Params {
		x.regs[p] = params[i]
	}
	if x.deferStack != nil {
		delete(x.deferStack, fn)
	}
	for i, fv := range fn.FreeVars {
		x.regs[fv] = freevars[i]
	}
	loops := findLoops(fn)
	order := rpo(fn)
	incoming := map[*ssa.BasicBlock][]edgeState{}
	var rets []retInfo
	loopEntry := map[*ssa.BasicBlock]*State{} // state at loop head after havoc (for iter())
	for _, b := range order {
		var st *State
		if b == fn.Blocks[0] {
			st = st0
		} else {
			ins := incoming[b]
			if len(ins) == 0 {
				continue // unreachable
			}
			// tail duplication of return blocks: the postcondition is proved per incoming path
			// instead of once over an ite-merge of all of them (much smaller queries)
			if ret, isRet := b.Instrs[len(b.Instrs)-1].(*ssa.Return); isRet && len(ins) > 1 && loops[b] == nil && fn == x.fn && simpleBlock(b) {
				for _, e := range ins {
					s := e.st.clone()
					x.curBlock = e.from
					if _, dup := x.reachBlock[s.reach]; !dup && !x.c.isTrue(s.reach) {
						x.reachBlock[s.reach] = e.from
					}
					for _, in := range b.Instrs[:len(b.Instrs)-1] {
						x.step(s, in)
					}
					var rs []Value
					for _, r := range ret.Results {
						rs = append(rs, x.val(s, r))
					}
					via := ""
					for k := len(e.from.Instrs) - 1; k >= 0 && via == ""; k-- {
						if p := e.from.Instrs[k].Pos(); p.IsValid() {
							via = " [path via " + x.pos(p) + "]"
						}
					}
					rets = append(rets, retInfo{s, rs, ret.Pos(), via, e.from})
				}
				continue
			}
			st = x.mergeStates(ins)
		}
		if fn == x.fn {
			x.curBlock = b
			if x.reachBlock == nil {
				x.reachBlock = map[*Term]*ssa.BasicBlock{}
			}
			if !x.c.isTrue(st.reach) {
				if _, dup := x.reachBlock[st.reach]; !dup {
					x.reachBlock[st.reach] = b
				}
			}
		}
		if li, ok := loops[b]; ok {
			st = x.enterLoop(fn, fc, li, st, loopEntry)
		}
		// execute instructions
		var term ssa.Instruction
		for _, in := range b.Instrs {
			switch in.(type) {
			case *ssa.If, *ssa.Jump, *ssa.Return, *ssa.Panic:
				term = in
			default:
				x.stepSafe(st, in)
			}
		}
		switch t := term.(type) {
		case *ssa.Jump:
			x.edge(fn, fc, loops, loopEntry, incoming, b, b.Succs[0], st)
		case *ssa.If:
			cond := x.scalar(x.val(st, t.Cond))
			s1 := st.clone()
			s1.reach = x.c.And(st.reach, cond)
			s2 := st.clone()
			s2.reach = x.c.And(st.reach, x.c.Not(cond))
			x.edge(fn, fc, loops, loopEntry, incoming, b, b.Succs[0], s1)
			x.edge(fn, fc, loops, loopEntry, incoming, b, b.Succs[1], s2)
		case *ssa.Return:
			var rs []Value
			for _, r := range t.Results {
				rs = append(rs, x.val(st, r))
			}
			rets = append(rets, retInfo{st, rs, t.Pos(), "", x.curBlock})
		case *ssa.Panic:
			x.handlePanic(fn, fc, st, t)
		case nil:
			// block without terminator (should not happen)
		}
	}
	return rets
}

// stepSafe executes one instruction; a construct outside the modelled subset degrades to
// "everything reachable is havoced, the result is unconstrained" and is listed in the ledger
// (its own panics, if any, are then not checked).
func (x *Exec) stepSafe(st *State, in ssa.Instruction) {
	x.curInstr = in
	defer func() {
		if r := recover(); r != nil {
			u, ok := r.(unsupportedErr)
			if !ok {
				panic(r)
			}
			x.ledger[fmt.Sprintf("UNMODELLED instruction at %s (%s): havoc of all memory, result unconstrained", x.pos(in.Pos()), u.msg)] = true
			x.havocForUnknown(st)
			for _, op := range in.Operands(nil) {
				if op == nil || *op == nil {
					continue
				}
				if al, ok := root(*op).(*ssa.Alloc); ok && !al.Heap {
					if _, has := st.cells[al]; has {
						st.cells[al] = x.freshValue("unm_"+al.Comment, deref(al.Type()))
					}
				}
			}
			if v, ok := in.(ssa.Value); ok {
				x.regs[v] = x.freshResult(st, "unm", v.Type())
			}
		}
	}()
	x.step(st, in)
}

// blockCanReach: is there a path a ->* b in the loop-cut CFG (back edges ignored)?
func (x *Exec) blockCanReach(a, b *ssa.BasicBlock) bool {
	if a == b {
		return true
	}
	if x.canReach == nil {
		x.canReach = map[*ssa.BasicBlock]map[*ssa.BasicBlock]bool{}
	}
	m, ok := x.canReach[a]
	if !ok {
		m = map[*ssa.BasicBlock]bool{}
		stack := []*ssa.BasicBlock{a}
		for len(stack) > 0 {
			n := stack[len(stack)-1]
			stack = stack[:len(stack)-1]
			for _, s := range n.Succs {
				if s.Dominates(n) || m[s] {
					continue
				}
				m[s] = true
				stack = append(stack, s)
			}
		}
		x.canReach[a] = m
	}
	return m[b]
}

// relevantHyps drops hypotheses guarded by the reach condition of a block from which the
// obligation's block cannot be reached (sibling branches): sound, fewer hypotheses.
func (x *Exec) relevantHyps(ob *Obligation) []*Term {
	hyps := x.hyps[:ob.NHyps]
	if ob.block == nil || x.reachBlock == nil || os.Getenv("GOVC_NOPRUNE") != "" {
		return hyps
	}
	out := make([]*Term, 0, len(hyps))
	var unguarded []*Term
	for _, h := range hyps {
		if h.op == "=>" && len(h.args) == 2 {
			if blk, ok := x.reachBlock[h.args[0]]; ok && blk.Parent() == ob.block.Parent() {
				if !x.blockCanReach(blk, ob.block) {
					continue
				}
				out = append(out, h)
				continue
			}
		}
		unguarded = append(unguarded, h)
	}
	// unguarded facts (type ranges, literal contents, axioms, string-equality facts): keep those that
	// share a symbol, transitively, with the goal or the path facts
	if x.symCache == nil {
		x.symCache = map[*Term][]string{}
	}
	symsOf := func(t *Term) []string {
		if s, ok := x.symCache[t]; ok {
			return s
		}
		m := map[string]bool{}
		x.c.symbols(t, m, map[*Term]bool{})
		s := make([]string, 0, len(m))
		for k := range m {
			s = append(s, k)
		}
		sort.Strings(s)
		x.symCache[t] = s
		return s
	}
	syms := map[string]bool{}
	var frontier []string
	addSyms := func(ss []string) {
		for _, s := range ss {
			if !syms[s] {
				syms[s] = true
				frontier = append(frontier, s)
			}
		}
	}
	addSyms(symsOf(ob.Goal))
	for _, h := range out {
		addSyms(symsOf(h))
	}
	type uh struct {
		h    *Term
		syms []string
	}
	us := make([]uh, len(unguarded))
	bySym := map[string][]int{}
	kept := make([]bool, len(us))
	for i, h := range unguarded {
		us[i] = uh{h, symsOf(h)}
		if len(us[i].syms) == 0 {
			kept[i] = true
		}
		for _, s := range us[i].syms {
			bySym[s] = append(bySym[s], i)
		}
	}
	for len(frontier) > 0 {
		s := frontier[len(frontier)-1]
		frontier = frontier[:len(frontier)-1]
		for _, i := range bySym[s] {
			if !kept[i] {
				kept[i] = true
				addSyms(us[i].syms)
			}
		}
	}
	// preserve the original order
	res := make([]*Term, 0, len(hyps))
	keepSet := map[*Term]bool{}
	for _, h := range out {
		keepSet[h] = true
	}
	for i, u := range us {
		if kept[i] {
			keepSet[u.h] = true
		}
	}
	for _, h := range hyps {
		if keepSet[h] {
			res = append(res, h)
		}
	}
	return res
}

// simpleBlock: only loads, field/index address computations and the like (safe to duplicate).
func simpleBlock(b *ssa.BasicBlock) bool {
	for _, in := range b.Instrs {
		switch in.(type) {
		case *ssa.UnOp, *ssa.FieldAddr, *ssa.Field, *ssa.DebugRef, *ssa.Return, *ssa.RunDefers, *ssa.Extract, *ssa.Store, *ssa.ChangeType, *ssa.MakeInterface, *ssa.Convert, *ssa.BinOp:
		default:
			return false
		}
	}
	return true
}

func (x *Exec) edge(fn *ssa.Function, fc *FuncContract, loops map[*ssa.BasicBlock]*loopInfo, loopEntry map[*ssa.BasicBlock]*State,
	incoming map[*ssa.BasicBlock][]edgeState, from, to *ssa.BasicBlock, st *State) {
	if to.Dominates(from) {
		// back edge: invariant must be re-established
		li := loops[to]
		x.checkInvariant(fn, fc, li, st, loopEntry[to], "inv-keep")
		return
	}
	// leaving a recognised "clear the map" loop (for k := range m { delete(m, k) }): m is empty
	if li := loops[from]; li != nil && li.header == from && !li.blocks[to] {
		if rng := x.w.clearIdiom(fn, li); rng != nil {
			if it, ok := x.regs[rng].(rangeIter); ok {
				if mt, isMap := it.t.Underlying().(*types.Map); isMap {
					st = st.clone()
					m := x.scalar(it.x)
					pk, ph := x.mapPresent(st, mt)
					empty := x.zeroLeaf(ArrSort(SInt, SBool))
					st.heap[pk] = x.c.Store(ph, m, empty)
					x.hyps = append(x.hyps, x.c.Eq(x.c.App("map_card", SInt, empty), x.c.Int(0)))
					x.ledger["loop 'for k := range m { delete(m, k) }' recognised as clearing m (idiom; range visits every key)"] = true
				}
			}
		}
	}
	key := [2]*ssa.BasicBlock{from, to}
	if old, ok := x.edgeReach[key]; ok && incomingHas(incoming[to], from) {
		x.edgeReach[key] = x.c.Or(old, st.reach)
	} else {
		x.edgeReach[key] = st.reach
	}
	incoming[to] = append(incoming[to], edgeState{st, from})
}

func incomingHas(ins []edgeState, from *ssa.BasicBlock) bool {
	for _, e := range ins {
		if e.from == from {
			return true
		}
	}
	return false
}

func (x *Exec) predReach(b, pred *ssa.BasicBlock, k int) *Term {
	if r, ok := x.edgeReach[[2]*ssa.BasicBlock{pred, b}]; ok {
		return r
	}
	return x.c.False()
}

func (x *Exec) mergeStates(ins []edgeState) *State {
	if len(ins) == 1 {
		return ins[0].st.clone()
	}
	c := x.c
	res := ins[len(ins)-1].st.clone()
	// materialise heap keys across all
	allKeys := map[string]Sort{}
	sameGen := true
	for _, e := range ins {
		if e.st.gen != res.gen {
			sameGen = false
		}
		for k, t := range e.st.heap {
			allKeys[k] = t.sort
		}
	}
	for i := len(ins) - 2; i >= 0; i-- {
		s := ins[i].st
		cond := s.reach
		for _, k := range sortedKeys(allKeys) {
			srt := allKeys[k]
			a := x.heapGetRaw(s, k, srt)
			b := x.heapGetRaw(res, k, srt)
			res.heap[k] = c.Ite(cond, a, b)
		}
		for _, cell := range sortedAllocs(res.cells) {
			bv := res.cells[cell]
			if av, ok := s.cells[cell]; ok {
				if !valueSame(av, bv) {
					res.cells[cell] = x.mergeValue(cond, av, bv)
				}
			}
		}
		for cell, av := range s.cells {
			if _, ok := res.cells[cell]; !ok {
				res.cells[cell] = av
			}
		}
		for _, g := range sortedKeys(res.ghost) {
			bv := res.ghost[g]
			if av, ok := s.ghost[g]; ok && av != bv {
				res.ghost[g] = c.Ite(cond, av, bv)
			}
		}
		for g, av := range s.ghost {
			if _, ok := res.ghost[g]; !ok {
				res.ghost[g] = av
			}
		}
		for _, g := range sortedKeys(s.tags) {
			av := s.tags[g]
			if bv, ok := res.tags[g]; !ok {
				res.tags[g] = av
			} else if av != bv {
				x.gens++
				res.tags[g] = x.gens
			}
		}
		res.allocTop = c.Ite(cond, s.allocTop, res.allocTop)
		res.reach = c.Or(s.reach, res.reach)
	}
	if !sameGen {
		x.gens++
		res.gen = x.gens
	}
	res.splits = nil
	for _, e := range ins {
		res.splits = append(res.splits, e.st.reach)
	}
	if x.fc != nil && x.fc.NameMerges {
		// give every merged heap array a name (with its defining equation as a hypothesis): element
		// terms over it stay plain selects, which quantifier patterns can match; an ite pushed through
		// the select cannot be a pattern
		var keys []string
		for k := range res.heap {
			keys = append(keys, k)
		}
		sort.Strings(keys)
		for _, k := range keys {
			t := res.heap[k]
			if t.op == "ite" && strings.HasPrefix(string(t.sort), "(Array") {
				n := c.Fresh("Hm_"+k, t.sort)
				x.hyps = append(x.hyps, c.mk("=", SBool, n, t))
				res.heap[k] = n
			}
		}
	}
	return res
}

func (x *Exec) heapGetRaw(st *State, key string, srt Sort) *Term {
	if t, ok := st.heap[key]; ok {
		return t
	}
	return x.heapGetK(st, key, srt)
}

// ---- loops -----------------------------------------------------------------------

// loopWrites computes the cells and heap key prefixes assigned inside a loop.
func (x *Exec) loopWrites(li *loopInfo) (cells map[*ssa.Alloc]bool, eff *Effects) {
	cells = map[*ssa.Alloc]bool{}
	eff = newEffects()
	for _, b := range sortedBlocks(li.blocks) {
		for _, in := range b.Instrs {
			x.w.instrEffects(in, eff, cells, x)
		}
	}
	return
}

func (x *Exec) enterLoop(fn *ssa.Function, fc *FuncContract, li *loopInfo, st *State, loopEntry map[*ssa.BasicBlock]*State) *State {
	// 1. invariant holds on entry
	pre := st
	x.checkInvariant(fn, fc, li, pre, nil, "inv-init")
	// 2. havoc everything assigned in the loop
	ns := st.clone()
	cells, eff := x.loopWrites(li)
	for _, cell := range sortedAllocs(cells) {
		if old, ok := ns.cells[cell]; ok {
			t := cell.Type().(*types.Pointer).Elem()
			nv := x.freshValue("L"+fmt.Sprint(li.ordinal)+"_"+cell.Comment, t)
			x.assumeRanges(ns, nv, t)
			_ = old
			ns.cells[cell] = nv
		}
	}
	// escaped cells may be written by calls in the loop
	if eff.all {
		for _, cell := range sortedAllocs(x.escaped) {
			if _, ok := ns.cells[cell]; ok {
				t := cell.Type().(*types.Pointer).Elem()
				ns.cells[cell] = x.freshValue("Lesc_"+cell.Comment, t)
			}
		}
	}
	// ghost variables updated by a call inside the loop
	if x.fc != nil && fn == x.fn {
		for _, g := range x.fc.Ghosts {
			old, ok := ns.ghost[g.Name]
			if !ok {
				continue
			}
			touched := false
			for b := range li.blocks {
				for _, in := range b.Instrs {
					if ci, ok := in.(ssa.CallInstruction); ok {
						if n := ghostCallName(ci.Common()); n != "" && g.On[n] != nil {
							touched = true
						}
					}
				}
			}
			if touched {
				ns.ghost[g.Name] = x.c.Fresh(fmt.Sprintf("L%d_ghost_%s", li.ordinal, g.Name), old.sort)
			}
		}
	}
	// the hidden position of a range-over-string loop advances in the loop that contains its Next
	for _, b := range sortedBlocks(li.blocks) {
		for _, in := range b.Instrs {
			if nx, ok := in.(*ssa.Next); ok && nx.IsString {
				if rg, ok := nx.Iter.(*ssa.Range); ok {
					name := rangePosName(rg)
					if old, has := ns.ghost[name]; has {
						ns.ghost[name] = x.c.Fresh(fmt.Sprintf("L%d_%s", li.ordinal, name), old.sort)
					}
				}
			}
		}
	}
	gensBefore := x.gens
	x.applyEffects(ns, eff)
	if x.loopTags == nil {
		x.loopTags = map[int]bool{}
	}
	for g := gensBefore + 1; g <= x.gens; g++ {
		x.loopTags[g] = true
	}
	if eff.allocs {
		nt := x.c.Fresh("allocTop", SInt)
		x.hyps = append(x.hyps, x.c.Le(ns.allocTop, nt))
		ns.allocTop = nt
	}
	loopEntry[li.header] = ns.clone()
	if x.loopPre == nil {
		x.loopPre = map[*ssa.BasicBlock]*State{}
	}
	x.loopPre[li.header] = pre
	// 3. assume the invariant in the havoced state
	x.assumeInvariant(fn, fc, li, ns, pre)
	return ns
}

func (x *Exec) applyEffects(st *State, eff *Effects) {
	if eff.all {
		x.havocAll(st)
		return
	}
	var ps []string
	for p := range eff.prefixes {
		ps = append(ps, p)
	}
	sort.Strings(ps)
	for _, p := range ps {
		x.havocKeyPrefix(st, p)
	}
}

// applyCallEffects: like applyEffects, but under fresh-frames a component the callee only writes in
// objects it allocated itself keeps its contents at every reference that existed before the call.
func (x *Exec) applyCallEffects(st *State, eff *Effects) {
	if eff.all || x.fc == nil || !x.fc.FreshFrames {
		x.applyEffects(st, eff)
		return
	}
	c := x.c
	var soft, hard []string
	for p := range eff.prefixes {
		if eff.soft[p] {
			soft = append(soft, p)
		} else {
			hard = append(hard, p)
		}
	}
	sort.Strings(soft)
	sort.Strings(hard)
	top := st.allocTop
	before := make(map[string]*Term, len(st.heap))
	for k, v := range st.heap {
		before[k] = v
	}
	defer x.keepPrivateSlices(st, before)
	for _, p := range soft {
		var keys []string
		for k := range st.heap {
			if keyMatches(k, p) {
				keys = append(keys, k)
			}
		}
		sort.Strings(keys)
		olds := map[string]*Term{}
		for _, k := range keys {
			olds[k] = st.heap[k]
		}
		x.havocKeyPrefix(st, p)
		for _, k := range keys {
			nv := st.heap[k]
			if nv == olds[k] || !strings.HasPrefix(string(nv.sort), "(Array Int ") {
				continue
			}
			r := c.BoundVar("r", SInt)
			body := c.Implies(c.Lt(r, top), c.Eq(c.Select(nv, r), c.Select(olds[k], r)))
			x.hyps = append(x.hyps, c.Forall([]*Term{r}, body, [][]*Term{{c.Select(nv, r)}}))
		}
	}
	for _, p := range hard {
		x.havocKeyPrefix(st, p)
	}
}

func (x *Exec) loopClauses(fn *ssa.Function, fc *FuncContract, li *loopInfo) []Clause {
	var out []Clause
	if fc != nil {
		out = append(out, fc.LoopInv[li.ordinal]...)
	}
	if fn != x.fn && x.fc != nil && x.fc.InlineLoopInv != nil {
		// the function under verification adds invariants to the loops of the callees it inlines
		out = append(out, x.fc.InlineLoopInv[fmt.Sprintf("%s#%d", lastName(funcKey(fn)), li.ordinal)]...)
	}
	return out
}

func (x *Exec) checkInvariant(fn *ssa.Function, fc *FuncContract, li *loopInfo, st *State, iterSt *State, kind string) {
	for _, cl := range x.loopClauses(fn, fc, li) {
		env := x.envFor(fn, st, x.entryFor(fn), nil)
		env.iter = iterSt
		env.pre = st
		if kind == "inv-keep" && x.loopPre != nil {
			env.pre = x.loopPre[li.header]
		}
		env.locals = true
		env.pos = li.minPos
		t := x.evalBool(cl.Expr, env)
		from := ""
		if kind == "inv-keep" && x.curBlock != nil && fn == x.fn {
			for k := len(x.curBlock.Instrs) - 1; k >= 0; k-- {
				if p := x.curBlock.Instrs[k].Pos(); p.IsValid() {
					from = " [back edge from " + x.pos(p) + "]"
					break
				}
			}
		}
		x.oblige(st, kind, fmt.Sprintf("loop %d invariant: %s%s", li.ordinal, cl.Text, from), li.minPos, t, cl.Props, cl.Text)
	}
	if kind == "inv-keep" && fc != nil && fc.LoopStep != nil {
		// position inside the block the back edge comes from: locals resolve in that scope
		pos := li.minPos
		if x.curBlock != nil && fn == x.fn {
			for k := len(x.curBlock.Instrs) - 1; k >= 0; k-- {
				if p := x.curBlock.Instrs[k].Pos(); p.IsValid() {
					pos = p
					break
				}
			}
		}
		for _, cl := range fc.LoopStep[li.ordinal] {
			env := x.envFor(fn, st, x.entryFor(fn), nil)
			env.iter = iterSt
			if x.loopPre != nil {
				env.pre = x.loopPre[li.header]
			}
			env.locals = true
			env.pos = pos
			env.lenient = true
			// the antecedent first: a clause about another switch case need not even type-check here
			if top := stripParen(cl.Expr); top.Op == "binary" && top.Name == "==>" {
				if a, ok := x.evalBoolLenient(top.Args[0], env); !ok || x.triviallyTrue(st, x.c.Implies(a, x.c.Fresh("any", SBool))) {
					continue
				}
			}
			t, ok := x.evalBoolLenient(cl.Expr, env)
			if !ok {
				continue // mentions locals that do not exist on this path: another case's clause
			}
			if x.stepApplied == nil {
				x.stepApplied = map[string]int{}
			}
			if x.triviallyTrue(st, t) {
				if top := stripParen(cl.Expr); !(top.Op == "binary" && top.Name == "==>") {
					x.stepApplied[cl.Text]++ // an unconditional clause that holds by simplification did apply
				}
				continue
			}
			x.stepApplied[cl.Text]++
			x.oblige(st, "step", fmt.Sprintf("loop %d step: %s [back edge from %s]", li.ordinal, cl.Text, x.pos(pos)), pos, t, cl.Props, cl.Text)
		}
	}
	// frame invariant: implied by the function's modifies clause
	if fc != nil && fc.ModifiesGiven && fn == x.fn {
		if g, desc := x.frameConj(st, fc); g != nil {
			x.oblige(st, kind, fmt.Sprintf("loop %d frame: unchanged outside the modifies clause: %s", li.ordinal, desc), li.minPos, g, fc.ModProps, "modifies")
		}
	}
}

// evalBoolLenient evaluates a clause that may mention locals of another switch case: such a clause
// does not apply on this path.
func (x *Exec) evalBoolLenient(e *CE, env *Env) (t *Term, ok bool) {
	defer func() {
		if r := recover(); r != nil {
			if _, isU := r.(unsupportedErr); isU {
				// (a step clause that applies on no back edge at all is reported as a check error)
				t, ok = nil, false
				return
			}
			panic(r)
		}
	}()
	return x.evalBool(e, env), true
}

func stripParen(e *CE) *CE {
	for e.Op == "paren" {
		e = e.Args[0]
	}
	return e
}

func conjuncts(t *Term) []*Term {
	if t.op == "and" && !t.leaf {
		return t.args
	}
	return []*Term{t}
}

// triviallyTrue: an implication whose antecedent has a conjunct that the path condition negates.
func (x *Exec) triviallyTrue(st *State, t *Term) bool {
	if x.c.isTrue(t) {
		return true
	}
	if t.op != "=>" || len(t.args) != 2 {
		return false
	}
	neg := map[*Term]bool{}
	eqLit := map[*Term]*Term{} // term -> literal it equals on this path
	for _, r := range conjuncts(st.reach) {
		neg[x.c.Not(r)] = true
		if r.op == "=" && len(r.args) == 2 {
			a, b := r.args[0], r.args[1]
			if _, ok := x.c.litVal(a); ok {
				a, b = b, a
			}
			if _, ok := x.c.litVal(b); ok {
				eqLit[a] = b
			}
		}
	}
	for _, a := range conjuncts(t.args[0]) {
		if neg[a] {
			return true
		}
		if a.op == "=" && len(a.args) == 2 {
			l, r := a.args[0], a.args[1]
			if _, ok := x.c.litVal(l); ok {
				l, r = r, l
			}
			if _, ok := x.c.litVal(r); ok {
				if other, has := eqLit[l]; has && other != r {
					return true // the path fixes this term to a different literal
				}
			}
		}
	}
	return false
}

// frameConj: the frame goals of all changed heap components as one conjunction.
func (x *Exec) frameConj(st *State, fc *FuncContract) (*Term, string) {
	fos := x.frameGoals(st, fc)
	if len(fos) == 0 {
		return nil, ""
	}
	var gs []*Term
	var names []string
	for _, fo := range fos {
		gs = append(gs, fo.goal)
		names = append(names, strings.TrimSuffix(strings.TrimSuffix(fo.desc, " unchanged outside the modifies clause"), " unchanged"))
	}
	return x.c.And(gs...), strings.Join(names, ", ")
}

func (x *Exec) assumeInvariant(fn *ssa.Function, fc *FuncContract, li *loopInfo, st *State, pre *State) {
	for _, cl := range x.loopClauses(fn, fc, li) {
		env := x.envFor(fn, st, x.entryFor(fn), nil)
		env.locals = true
		env.pos = li.minPos
		env.pre = pre
		t := x.evalBool(cl.Expr, env)
		x.assume(st, t)
	}
	if fc != nil && fc.ModifiesGiven && fn == x.fn {
		for _, fo := range x.frameGoals(st, fc) {
			x.assume(st, fo.goal)
		}
	}
}

func (x *Exec) entryFor(fn *ssa.Function) *State { return x.entry }

// ---- panics ------------------------------------------------------------------------

func (x *Exec) handlePanic(fn *ssa.Function, fc *FuncContract, st *State, p *ssa.Panic) {
	if fc != nil && len(fc.PanicsWhen) > 0 {
		// the panic is allowed exactly under the stated condition (over entry values)
		var conds []*Term
		for _, cl := range fc.PanicsWhen {
			env := x.envFor(fn, st, x.entryFor(fn), nil)
			env.locals = true
			conds = append(conds, x.evalBool(cl.Expr, env))
		}
		x.oblige(st, "panic-allowed", "explicit panic only under panics-when", p.Pos(), x.c.Or(conds...), nil, "panics-when")
		return
	}
	if fc != nil && fc.MayPanic {
		return
	}
	x.oblige(st, "panic-unreachable", "explicit panic", p.Pos(), x.c.False(), nil, "")
}

// ---- values ------------------------------------------------------------------------

func (x *Exec) val(st *State, v ssa.Value) Value {
	switch k := v.(type) {
	case *ssa.Const:
		return x.constVal(k)
	case *ssa.Function:
		return FuncV{Fn: k}
	case *ssa.Global:
		return PtrV{Kind: PGlobal, Global: k}
	case *ssa.Builtin:
		return FuncV{}
	}
	if r, ok := x.regs[v]; ok {
		return r
	}
	panic(unsupported("use of undefined register %s in %s", v.Name(), v.Parent()))
}

func (x *Exec) constVal(k *ssa.Const) Value {
	c := x.c
	t := k.Type()
	if k.Value == nil {
		return x.zeroValue(t)
	}
	switch u := t.Underlying().(type) {
	case *types.Basic:
		switch {
		case u.Info()&types.IsBoolean != 0:
			return Sc{c.Bool(constant.BoolVal(k.Value))}
		case u.Info()&types.IsInteger != 0:
			bi, ok := new(big.Int).SetString(k.Value.ExactString(), 10)
			if !ok {
				if i64, ok2 := constant.Int64Val(constant.ToInt(k.Value)); ok2 {
					bi = big.NewInt(i64)
				} else {
					panic(unsupported("int const %s", k.Value))
				}
			}
			return Sc{c.IntBig(bi)}
		case u.Info()&types.IsFloat != 0:
			f, _ := constant.Float64Val(k.Value)
			return Sc{c.F64Lit(f)}
		case u.Info()&types.IsString != 0:
			return x.strLit(constant.StringVal(k.Value))
		}
	}
	panic(unsupported("const %s of type %s", k, t))
}

var aliasWordRe = regexp.MustCompile(`\b(byte|rune)\b`)

func (x *Exec) typeID(t types.Type) *Term {
	// byte and uint8 (rune and int32) are the same type
	k := aliasWordRe.ReplaceAllStringFunc(typeKey(t), func(w string) string {
		if w == "byte" {
			return "uint8"
		}
		return "int32"
	})
	id, ok := x.typeIDs[k]
	if !ok {
		id = int64(len(x.typeIDs) + 1)
		if _, isPtr := t.Underlying().(*types.Pointer); isPtr && x.fc != nil && x.fc.FreshFrames {
			// under fresh-frames the identifiers of pointer types start at ptrTagBase, so that "the
			// dynamic type is a pointer type" is a comparison (see rangeFacts)
			id += ptrTagBase
		}
		x.typeIDs[k] = id
	}
	return x.c.Int(id)
}
