package main

import (
	"bytes"
	"go/ast"
	"go/printer"

	"golang.org/x/tools/go/ssa"
)

// clearIdiom recognises the loop `for k := range m { delete(m, k) }` (same expression m, the
// range key as the deleted key, nothing else in the body) and returns its ssa.Range instruction.
func (w *World) clearIdiom(fn *ssa.Function, li *loopInfo) *ssa.Range {
	if li.clearChecked {
		return li.clearRange
	}
	li.clearChecked = true
	// the header block of a range-over-map loop starts with the Next instruction
	var next *ssa.Next
	for _, in := range li.header.Instrs {
		if n, ok := in.(*ssa.Next); ok && !n.IsString {
			next = n
			break
		}
	}
	if next == nil {
		return nil
	}
	rng, ok := next.Iter.(*ssa.Range)
	if !ok {
		return nil
	}
	syn := fn.Syntax()
	if syn == nil {
		return nil
	}
	var found *ast.RangeStmt
	ast.Inspect(syn, func(n ast.Node) bool {
		rs, ok := n.(*ast.RangeStmt)
		if !ok {
			return true
		}
		// the loop whose body contains the loop's first instruction position
		if rs.Pos() <= li.minPos && li.minPos <= rs.End() {
			if found == nil || (rs.Pos() >= found.Pos() && rs.End() <= found.End()) {
				found = rs
			}
		}
		return true
	})
	if found == nil || found.Key == nil || found.Value != nil || len(found.Body.List) != 1 {
		return nil
	}
	key, ok := found.Key.(*ast.Ident)
	if !ok {
		return nil
	}
	es, ok := found.Body.List[0].(*ast.ExprStmt)
	if !ok {
		return nil
	}
	call, ok := es.X.(*ast.CallExpr)
	if !ok || len(call.Args) != 2 {
		return nil
	}
	if f, ok := call.Fun.(*ast.Ident); !ok || f.Name != "delete" {
		return nil
	}
	if k, ok := call.Args[1].(*ast.Ident); !ok || k.Name != key.Name {
		return nil
	}
	if w.exprText(call.Args[0]) != w.exprText(found.X) {
		return nil
	}
	li.clearRange = rng
	return rng
}

func (w *World) exprText(e ast.Expr) string {
	var buf bytes.Buffer
	printer.Fprint(&buf, w.fset, e)
	return buf.String()
}
