package main

import (
	"fmt"
	"go/types"
	"math"
	"math/big"
	"strings"

	"golang.org/x/tools/go/ssa"
)

func mathFloat64bits(f float64) uint64 { return math.Float64bits(f) }

// Value is a symbolic Go value, structured on the Go side and flattened to
// SMT scalars ("leaves") when stored in memory or merged.
type Value interface{}

type Sc struct{ T *Term }                     // bool, integers, floats, map/chan handles
type SliceV struct{ Arr, Off, Len, Cap *Term } // view into backing array Arr
type StrV struct{ Ref, Off, Len *Term }        // view into immutable string array Ref
type StructV struct{ F []Value }
type IfaceV struct{ Tag, Val *Term } // Tag 0 == nil interface
type TupleV struct{ E []Value }
type ArrayV struct { // fixed-size array value, per-leaf SMT arrays
	L map[string]*Term
	N int64
}

// SeqV is an abstract sequence (contents by value), used for spec-function
// arguments and quantified variables of slice/string type.
type SeqV struct {
	C        map[string]*Term // leaf suffix -> (Array Int leaf)
	Off, Len *Term
}

type PtrKind int

const (
	PRef   PtrKind = iota // pointer to a heap object (struct or box); Base is the ref
	PLocal                // pointer into a local cell
	PField                // pointer to a field (path) of heap struct object Base
	PElem                 // pointer to element Idx (absolute index) of backing array Base
	PGlobal
)

type PtrV struct {
	Kind   PtrKind
	Base   *Term
	Cell   *ssa.Alloc
	Global *ssa.Global
	Struct *types.Named // PField: the struct type whose field is addressed
	Path   []int        // field path (PLocal, PField, PElem into struct elements)
	Idx    *Term        // PElem
	Elem   types.Type   // PElem: element type of the array
}

type FuncV struct {
	Fn    *ssa.Function
	Binds []Value
	T     *Term // opaque function value
	Param *ssa.Parameter
}

// ---- shapes -----------------------------------------------------------------

type leaf struct {
	suffix string
	sort   Sort
}

func isNamedStruct(t types.Type) (*types.Named, *types.Struct, bool) {
	if n, ok := t.(*types.Named); ok {
		if s, ok := n.Underlying().(*types.Struct); ok {
			return n, s, true
		}
	}
	if a, ok := t.(*types.Alias); ok {
		return isNamedStruct(types.Unalias(a))
	}
	return nil, nil, false
}

func typeKey(t types.Type) string {
	t = types.Unalias(t)
	if i, ok := t.(*types.Interface); ok && i.NumMethods() == 0 {
		return "any"
	}
	s := types.TypeString(t, func(p *types.Package) string { return p.Name() })
	return strings.ReplaceAll(s, "interface{}", "any")
}

// leavesOf lists the scalar leaves of a type.
func leavesOf(t types.Type) []leaf {
	switch u := t.Underlying().(type) {
	case *types.Basic:
		switch {
		case u.Info()&types.IsBoolean != 0:
			return []leaf{{"", SBool}}
		case u.Info()&types.IsInteger != 0:
			return []leaf{{"", SInt}}
		case u.Info()&types.IsFloat != 0:
			return []leaf{{"", SF64}}
		case u.Info()&types.IsString != 0:
			return []leaf{{"#ref", SInt}, {"#off", SInt}, {"#len", SInt}}
		case u.Kind() == types.UnsafePointer:
			return []leaf{{"", SInt}}
		case u.Kind() == types.UntypedNil:
			return []leaf{{"", SInt}}
		}
	case *types.Slice:
		return []leaf{{"#arr", SInt}, {"#off", SInt}, {"#len", SInt}, {"#cap", SInt}}
	case *types.Pointer, *types.Map, *types.Chan, *types.Signature:
		return []leaf{{"", SInt}}
	case *types.Interface:
		return []leaf{{"#tag", SInt}, {"#val", SInt}}
	case *types.Struct:
		var out []leaf
		for i := 0; i < u.NumFields(); i++ {
			for _, l := range leavesOf(u.Field(i).Type()) {
				out = append(out, leaf{"." + u.Field(i).Name() + l.suffix, l.sort})
			}
		}
		return out
	case *types.Array:
		var out []leaf
		for _, l := range leavesOf(u.Elem()) {
			out = append(out, leaf{"[]" + l.suffix, ArrSort(SInt, l.sort)})
		}
		return out
	case *types.Tuple:
		var out []leaf
		for i := 0; i < u.Len(); i++ {
			for _, l := range leavesOf(u.At(i).Type()) {
				out = append(out, leaf{fmt.Sprintf("<%d>", i) + l.suffix, l.sort})
			}
		}
		return out
	}
	panic(unsupported("leavesOf %s", t))
}

type unsupportedErr struct{ msg string }

func (u unsupportedErr) Error() string { return u.msg }
func unsupported(f string, args ...interface{}) unsupportedErr {
	return unsupportedErr{fmt.Sprintf(f, args...)}
}

// flatten returns the leaves of v (typed t) in leavesOf order.
func (x *Exec) flatten(v Value, t types.Type) []*Term {
	switch u := t.Underlying().(type) {
	case *types.Basic:
		if u.Info()&types.IsString != 0 {
			s := v.(StrV)
			return []*Term{s.Ref, s.Off, s.Len}
		}
		return []*Term{x.scalar(v)}
	case *types.Slice:
		s := v.(SliceV)
		return []*Term{s.Arr, s.Off, s.Len, s.Cap}
	case *types.Pointer:
		return []*Term{x.ptrTerm(v)}
	case *types.Map, *types.Chan:
		return []*Term{x.scalar(v)}
	case *types.Signature:
		return []*Term{x.funcTerm(v)}
	case *types.Interface:
		i := v.(IfaceV)
		return []*Term{i.Tag, i.Val}
	case *types.Struct:
		s := v.(StructV)
		var out []*Term
		for i := 0; i < u.NumFields(); i++ {
			out = append(out, x.flatten(s.F[i], u.Field(i).Type())...)
		}
		return out
	case *types.Array:
		a := v.(ArrayV)
		var out []*Term
		for _, l := range leavesOf(u.Elem()) {
			out = append(out, a.L[l.suffix])
		}
		return out
	case *types.Tuple:
		tu := v.(TupleV)
		var out []*Term
		for i := 0; i < u.Len(); i++ {
			out = append(out, x.flatten(tu.E[i], u.At(i).Type())...)
		}
		return out
	}
	panic(unsupported("flatten %s", t))
}

func (x *Exec) scalar(v Value) *Term {
	switch s := v.(type) {
	case Sc:
		return s.T
	case PtrV:
		return x.ptrTerm(v)
	}
	panic(unsupported("scalar of %T", v))
}

func (x *Exec) ptrTerm(v Value) *Term {
	switch p := v.(type) {
	case PtrV:
		if p.Kind == PRef {
			return p.Base
		}
		// A pointer into a local, field or element escapes into memory: give it an
		// opaque identity. Loads through it later are not supported.
		key := fmt.Sprintf("%v|%p|%v|%v|%v", p.Kind, p.Cell, p.Base, p.Path, p.Idx)
		if t, ok := x.opaquePtrs[key]; ok {
			return t
		}
		t := x.c.Fresh("ptr", SInt)
		x.opaquePtrs[key] = t
		x.opaqueBack[t] = p
		x.noteEscape(p)
		return t
	case Sc:
		return s2t(p)
	}
	panic(unsupported("ptrTerm of %T", v))
}

func s2t(s Sc) *Term { return s.T }

func (x *Exec) funcTerm(v Value) *Term {
	switch f := v.(type) {
	case FuncV:
		if f.T != nil {
			return f.T
		}
		key := fmt.Sprintf("%p", f.Fn)
		if f.Fn != nil && len(f.Binds) == 0 {
			if t, ok := x.funcIDs[key]; ok {
				return t
			}
			t := x.c.Fresh("fn_"+f.Fn.Name(), SInt)
			x.funcIDs[key] = t
			x.funcBack[t] = f
			return t
		}
		t := x.c.Fresh("closure", SInt)
		x.funcBack[t] = f
		return t
	case Sc:
		return f.T
	}
	panic(unsupported("funcTerm of %T", v))
}

// unflatten rebuilds a value of type t from leaves (consumes from *ts).
func (x *Exec) unflatten(t types.Type, ts *[]*Term) Value {
	take := func() *Term {
		v := (*ts)[0]
		*ts = (*ts)[1:]
		return v
	}
	switch u := t.Underlying().(type) {
	case *types.Basic:
		if u.Info()&types.IsString != 0 {
			return StrV{take(), take(), take()}
		}
		return Sc{take()}
	case *types.Slice:
		return SliceV{take(), take(), take(), take()}
	case *types.Pointer:
		tm := take()
		if p, ok := x.opaqueBack[tm]; ok {
			return p
		}
		return PtrV{Kind: PRef, Base: tm}
	case *types.Map, *types.Chan:
		return Sc{take()}
	case *types.Signature:
		tm := take()
		if f, ok := x.funcBack[tm]; ok {
			return f
		}
		return FuncV{T: tm}
	case *types.Interface:
		return IfaceV{take(), take()}
	case *types.Struct:
		s := StructV{}
		for i := 0; i < u.NumFields(); i++ {
			s.F = append(s.F, x.unflatten(u.Field(i).Type(), ts))
		}
		return s
	case *types.Array:
		a := ArrayV{L: map[string]*Term{}, N: u.Len()}
		for _, l := range leavesOf(u.Elem()) {
			a.L[l.suffix] = take()
		}
		return a
	case *types.Tuple:
		tu := TupleV{}
		for i := 0; i < u.Len(); i++ {
			tu.E = append(tu.E, x.unflatten(u.At(i).Type(), ts))
		}
		return tu
	}
	panic(unsupported("unflatten %s", t))
}

// freshValue makes an unconstrained value of type t (ranges assumed separately).
func (x *Exec) freshValue(name string, t types.Type) Value {
	ls := leavesOf(t)
	ts := make([]*Term, len(ls))
	for i, l := range ls {
		ts[i] = x.c.Fresh(name+l.suffix, l.sort)
	}
	return x.unflatten(t, &ts)
}

// zeroValue is Go's zero value of type t.
func (x *Exec) zeroValue(t types.Type) Value {
	ls := leavesOf(t)
	ts := make([]*Term, len(ls))
	for i, l := range ls {
		ts[i] = x.zeroLeaf(l.sort)
	}
	return x.unflatten(t, &ts)
}

func (x *Exec) zeroLeaf(s Sort) *Term {
	switch x.c.rs(s) {
	case SBool:
		return x.c.False()
	case x.c.IntSort():
		return x.c.Int(0)
	case SF64:
		return x.c.F64Lit(0)
	}
	if strings.HasPrefix(string(s), "(Array") {
		// constant array
		es := elemSort(x.c.rs(s))
		return x.c.mk(fmt.Sprintf("((as const %s) %s)", x.c.rs(s), x.zeroLeaf(es).op), s)
	}
	panic(unsupported("zero of sort %s", s))
}

// mergeValue builds ite(cond, a, b) componentwise.
func (x *Exec) mergeValue(cond *Term, a, b Value) Value {
	switch av := a.(type) {
	case Sc:
		return Sc{x.c.Ite(cond, av.T, x.scalar(b))}
	case SliceV:
		bv := b.(SliceV)
		return SliceV{x.c.Ite(cond, av.Arr, bv.Arr), x.c.Ite(cond, av.Off, bv.Off), x.c.Ite(cond, av.Len, bv.Len), x.c.Ite(cond, av.Cap, bv.Cap)}
	case StrV:
		bv := b.(StrV)
		return StrV{x.c.Ite(cond, av.Ref, bv.Ref), x.c.Ite(cond, av.Off, bv.Off), x.c.Ite(cond, av.Len, bv.Len)}
	case IfaceV:
		bv := b.(IfaceV)
		return IfaceV{x.c.Ite(cond, av.Tag, bv.Tag), x.c.Ite(cond, av.Val, bv.Val)}
	case StructV:
		bv := b.(StructV)
		out := StructV{F: make([]Value, len(av.F))}
		for i := range av.F {
			out.F[i] = x.mergeValue(cond, av.F[i], bv.F[i])
		}
		return out
	case TupleV:
		bv := b.(TupleV)
		out := TupleV{E: make([]Value, len(av.E))}
		for i := range av.E {
			out.E[i] = x.mergeValue(cond, av.E[i], bv.E[i])
		}
		return out
	case ArrayV:
		bv := b.(ArrayV)
		out := ArrayV{L: map[string]*Term{}, N: av.N}
		for _, k := range sortedKeys(av.L) {
			out.L[k] = x.c.Ite(cond, av.L[k], bv.L[k])
		}
		return out
	case PtrV:
		bp, ok := b.(PtrV)
		if ok && ptrEqual(av, bp) {
			return av
		}
		return PtrV{Kind: PRef, Base: x.c.Ite(cond, x.ptrTerm(a), x.ptrTerm(b))}
	case FuncV:
		bf, ok := b.(FuncV)
		if ok && valueSame(av, bf) {
			return av
		}
		return FuncV{T: x.c.Ite(cond, x.funcTerm(a), x.funcTerm(b))}
	case nil:
		return b
	}
	panic(unsupported("merge of %T", a))
}

func ptrEqual(a, b PtrV) bool {
	if a.Kind != b.Kind || a.Base != b.Base || a.Cell != b.Cell || a.Global != b.Global || a.Idx != b.Idx || len(a.Path) != len(b.Path) {
		return false
	}
	for i := range a.Path {
		if a.Path[i] != b.Path[i] {
			return false
		}
	}
	return true
}

func valueSame(a, b Value) bool {
	switch av := a.(type) {
	case Sc:
		bv, ok := b.(Sc)
		return ok && av.T == bv.T
	case SliceV:
		bv, ok := b.(SliceV)
		return ok && av == bv
	case StrV:
		bv, ok := b.(StrV)
		return ok && av == bv
	case IfaceV:
		bv, ok := b.(IfaceV)
		return ok && av == bv
	case StructV:
		bv, ok := b.(StructV)
		if !ok || len(av.F) != len(bv.F) {
			return false
		}
		for i := range av.F {
			if !valueSame(av.F[i], bv.F[i]) {
				return false
			}
		}
		return true
	case PtrV:
		bv, ok := b.(PtrV)
		return ok && ptrEqual(av, bv)
	case FuncV:
		bv, ok := b.(FuncV)
		if !ok || av.Fn != bv.Fn || av.T != bv.T || av.Param != bv.Param || len(av.Binds) != len(bv.Binds) {
			return false
		}
		for i := range av.Binds { // the same closure: same function, same captured cells
			if !valueSame(av.Binds[i], bv.Binds[i]) {
				return false
			}
		}
		return true
	case ArrayV:
		bv, ok := b.(ArrayV)
		if !ok {
			return false
		}
		for k := range av.L {
			if av.L[k] != bv.L[k] {
				return false
			}
		}
		return true
	case TupleV:
		bv, ok := b.(TupleV)
		if !ok || len(av.E) != len(bv.E) {
			return false
		}
		for i := range av.E {
			if !valueSame(av.E[i], bv.E[i]) {
				return false
			}
		}
		return true
	}
	return false
}

// ---- type ranges --------------------------------------------------------------

var (
	big1       = big.NewInt(1)
	maxLenBig  = new(big.Int).Lsh(big1, 48) // lengths/capacities of any slice or string are below 2^48
	maxAllocBg = new(big.Int).Lsh(big1, 56)
)

func intRange(b *types.Basic) (lo, hi *big.Int, bits int, signed bool) {
	switch b.Kind() {
	case types.Int, types.Int64, types.UntypedInt, types.UntypedRune:
		bits, signed = 64, true
	case types.Int32:
		bits, signed = 32, true
	case types.Int16:
		bits, signed = 16, true
	case types.Int8:
		bits, signed = 8, true
	case types.Uint, types.Uint64, types.Uintptr:
		bits, signed = 64, false
	case types.Uint32:
		bits, signed = 32, false
	case types.Uint16:
		bits, signed = 16, false
	case types.Uint8:
		bits, signed = 8, false
	default:
		panic(unsupported("intRange %s", b))
	}
	if signed {
		hi = new(big.Int).Sub(new(big.Int).Lsh(big1, uint(bits-1)), big1)
		lo = new(big.Int).Neg(new(big.Int).Lsh(big1, uint(bits-1)))
	} else {
		lo = big.NewInt(0)
		hi = new(big.Int).Sub(new(big.Int).Lsh(big1, uint(bits)), big1)
	}
	return
}

// rangeFacts returns the type invariant of value v of type t as a list of facts.
func (x *Exec) rangeFacts(v Value, t types.Type, st *State) []*Term {
	c := x.c
	var out []*Term
	switch u := t.Underlying().(type) {
	case *types.Basic:
		switch {
		case u.Info()&types.IsInteger != 0:
			lo, hi, bits, signed := intRange(u)
			tm := x.scalar(v)
			if c.bv {
				if bits < 64 {
					if signed {
						out = append(out, c.InRange(tm, lo, hi))
					} else {
						out = append(out, c.ULe(tm, c.IntBig(hi)))
					}
				}
			} else {
				out = append(out, c.InRange(tm, lo, hi))
			}
		case u.Info()&types.IsString != 0:
			s := v.(StrV)
			out = append(out, c.Le(c.Int(0), s.Off), c.Le(c.Int(0), s.Len), c.Le(s.Len, c.IntBig(maxLenBig)), c.Le(s.Off, c.IntBig(maxLenBig)))
		}
	case *types.Slice:
		s := v.(SliceV)
		out = append(out, c.Le(c.Int(0), s.Off), c.Le(c.Int(0), s.Len), c.Le(s.Len, s.Cap), c.Le(s.Cap, c.IntBig(maxLenBig)), c.Le(s.Off, c.IntBig(maxLenBig)),
			c.Le(c.Int(0), s.Arr))
		// nil slice: arr == 0 implies len == cap == 0
		out = append(out, c.Implies(c.Eq(s.Arr, c.Int(0)), c.And(c.Eq(s.Cap, c.Int(0)), c.Eq(s.Off, c.Int(0)))))
		if st != nil {
			out = append(out, c.Lt(s.Arr, st.allocTop))
		}
	case *types.Pointer:
		if p, ok := v.(PtrV); ok && p.Kind == PRef {
			out = append(out, c.Le(c.Int(0), p.Base))
			if st != nil {
				out = append(out, c.Lt(p.Base, st.allocTop))
			}
		}
	case *types.Map, *types.Chan:
		tm := x.scalar(v)
		out = append(out, c.Le(c.Int(0), tm))
		if st != nil {
			out = append(out, c.Lt(tm, st.allocTop))
		}
	case *types.Interface:
		i := v.(IfaceV)
		out = append(out, c.Le(c.Int(0), i.Tag))
		if st != nil && x.fc != nil && x.fc.FreshFrames {
			// a value whose dynamic type is a pointer type carries a reference that exists
			out = append(out, c.Implies(c.Le(c.Int(ptrTagBase), i.Tag), c.And(c.Le(c.Int(0), i.Val), c.Lt(i.Val, st.allocTop))))
		}
	case *types.Struct:
		s := v.(StructV)
		for i := 0; i < u.NumFields(); i++ {
			out = append(out, x.rangeFacts(s.F[i], u.Field(i).Type(), st)...)
		}
	case *types.Tuple:
		tu := v.(TupleV)
		for i := 0; i < u.Len(); i++ {
			out = append(out, x.rangeFacts(tu.E[i], u.At(i).Type(), st)...)
		}
	}
	return out
}

// ptrTagBase: under fresh-frames the type identifiers of pointer types are at least this (typeID).
const ptrTagBase = 1000000
