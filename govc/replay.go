package main

type replayResult struct {
	confirmed bool
	log       string
}

// tryReplay replays a solver model on the real code (go test -overlay).
func tryReplay(w *World, cfg runConfig, ob *Obligation) replayResult {
	return replayResult{false, "replay generator: not available for this obligation kind yet\n"}
}
