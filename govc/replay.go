package main

// Replay of solver counterexamples on the real code: the model of a refuted obligation is turned
// into concrete Go inputs, the real function is called through an in-package test injected with
// `go test -overlay`, and the violated clause is evaluated on the concrete result (safety
// obligations: the call must panic).

import (
	"context"
	"encoding/json"
	"fmt"
	"go/types"
	"math"
	"math/big"
	"os"
	"os/exec"
	"path/filepath"
	"sort"
	"strconv"
	"strings"
	"time"

	"golang.org/x/tools/go/ssa"
)

type replayResult struct {
	confirmed bool
	log       string
}

const maxReplayLen = 256

// ---- s-expression parsing of (get-value ...) output ------------------------------------------

type sexp struct {
	atom string
	list []*sexp
}

func parseSexps(s string) []*sexp {
	var out []*sexp
	i := 0
	var parse func() *sexp
	skip := func() {
		for i < len(s) && (s[i] == ' ' || s[i] == '\n' || s[i] == '\t' || s[i] == '\r') {
			i++
		}
	}
	parse = func() *sexp {
		skip()
		if i >= len(s) {
			return nil
		}
		if s[i] == '(' {
			i++
			n := &sexp{list: []*sexp{}}
			for {
				skip()
				if i >= len(s) {
					return n
				}
				if s[i] == ')' {
					i++
					return n
				}
				c := parse()
				if c == nil {
					return n
				}
				n.list = append(n.list, c)
			}
		}
		if s[i] == '"' {
			j := i + 1
			for j < len(s) && s[j] != '"' {
				j++
			}
			a := s[i : j+1]
			i = j + 1
			return &sexp{atom: a}
		}
		if s[i] == '|' {
			j := i + 1
			for j < len(s) && s[j] != '|' {
				j++
			}
			a := s[i : j+1]
			i = j + 1
			return &sexp{atom: a}
		}
		j := i
		for j < len(s) && s[j] != ' ' && s[j] != '\n' && s[j] != '(' && s[j] != ')' && s[j] != '\t' {
			j++
		}
		a := s[i:j]
		i = j
		return &sexp{atom: a}
	}
	for {
		skip()
		if i >= len(s) {
			break
		}
		e := parse()
		if e == nil {
			break
		}
		out = append(out, e)
	}
	return out
}

func (e *sexp) String() string {
	if e.list == nil {
		return e.atom
	}
	var parts []string
	for _, c := range e.list {
		parts = append(parts, c.String())
	}
	return "(" + strings.Join(parts, " ") + ")"
}

// modelVal is a concrete value read from the model.
type modelVal struct {
	isInt  bool
	i      *big.Int
	isBool bool
	b      bool
	isFP   bool
	bits   uint64
	raw    string
}

func parseModelVal(e *sexp, bv bool) modelVal {
	raw := e.String()
	mv := modelVal{raw: raw}
	if e.list == nil {
		a := e.atom
		switch {
		case a == "true" || a == "false":
			mv.isBool, mv.b = true, a == "true"
		case strings.HasPrefix(a, "#x"):
			v, ok := new(big.Int).SetString(a[2:], 16)
			if ok {
				if len(a) == 18 && v.Bit(63) == 1 {
					v.Sub(v, new(big.Int).Lsh(big.NewInt(1), 64))
				}
				mv.isInt, mv.i = true, v
			}
		case strings.HasPrefix(a, "#b"):
			v, ok := new(big.Int).SetString(a[2:], 2)
			if ok {
				mv.isInt, mv.i = true, v
			}
		default:
			if v, ok := new(big.Int).SetString(a, 10); ok {
				mv.isInt, mv.i = true, v
			}
		}
		return mv
	}
	l := e.list
	if len(l) == 2 && l[0].atom == "-" {
		inner := parseModelVal(l[1], bv)
		if inner.isInt {
			mv.isInt, mv.i = true, new(big.Int).Neg(inner.i)
		}
		return mv
	}
	if len(l) == 4 && l[0].atom == "fp" {
		s := parseModelVal(l[1], bv)
		ex := parseModelVal(l[2], bv)
		m := parseModelVal(l[3], bv)
		if s.isInt && ex.isInt && m.isInt {
			mv.isFP = true
			mv.bits = s.i.Uint64()<<63 | ex.i.Uint64()<<52 | m.i.Uint64()
		}
		return mv
	}
	if len(l) >= 3 && l[0].atom == "_" {
		switch l[1].atom {
		case "+zero":
			mv.isFP, mv.bits = true, 0
		case "-zero":
			mv.isFP, mv.bits = true, 1<<63
		case "+oo":
			mv.isFP, mv.bits = true, math.Float64bits(math.Inf(1))
		case "-oo":
			mv.isFP, mv.bits = true, math.Float64bits(math.Inf(-1))
		case "NaN":
			mv.isFP, mv.bits = true, math.Float64bits(math.NaN())
		}
		if strings.HasPrefix(l[1].atom, "bv") {
			if v, ok := new(big.Int).SetString(l[1].atom[2:], 10); ok {
				mv.isInt, mv.i = true, v
			}
		}
	}
	return mv
}

// ---- model access --------------------------------------------------------------------------------

type modelReader struct {
	ob     *Obligation
	x      *Exec
	dir    string
	cache  map[*Term]modelVal
	log    *strings.Builder
	failed bool
	runs   int
	mode   string
}

// smallScope: every slice/string reachable from the parameters (through pointers to structs, in
// the entry heap) has length at most 6.
func (x *Exec) smallScope(fn *ssa.Function) []*Term {
	c := x.c
	var out []*Term
	var walk func(v Value, t types.Type, depth int)
	walk = func(v Value, t types.Type, depth int) {
		if depth > 3 {
			return
		}
		defer func() { recover() }()
		switch u := t.Underlying().(type) {
		case *types.Basic:
			if s, ok := v.(StrV); ok {
				out = append(out, c.Le(s.Len, c.Int(6)))
			}
		case *types.Slice:
			if s, ok := v.(SliceV); ok {
				out = append(out, c.Le(s.Len, c.Int(6)))
			}
		case *types.Struct:
			if sv, ok := v.(StructV); ok {
				for k := 0; k < u.NumFields(); k++ {
					walk(sv.F[k], u.Field(k).Type(), depth+1)
				}
			}
		case *types.Pointer:
			if p, ok := v.(PtrV); ok && p.Kind == PRef && replayableType(u.Elem(), 0) {
				walk(x.loadPtr(x.entry, p, u.Elem()), u.Elem(), depth+1)
			}
		}
	}
	for _, p := range fn.Params {
		walk(x.regs[p], p.Type(), 0)
	}
	return out
}

// values queries the solver for the values of the given terms (one solver run).
func (m *modelReader) values(ts []*Term) bool {
	var need []*Term
	seen := map[*Term]bool{}
	for _, t := range ts {
		if _, ok := m.cache[t]; !ok && !seen[t] {
			seen[t] = true
			need = append(need, t)
		}
	}
	if len(need) == 0 {
		return true
	}
	if m.runs >= 24 {
		if !m.failed {
			fmt.Fprintf(m.log, "model too large to read back within the budget of 24 solver runs\n")
		}
		m.failed = true
		return false
	}
	// always ask for everything known so far as well: one consistent model per run
	all := append([]*Term{}, need...)
	for t := range m.cache {
		all = append(all, t)
	}
	sort.Slice(all, func(i, j int) bool { return all[i].id < all[j].id })
	m.ob.GetValues = all
	if m.mode == "" {
		m.mode = "small"
	}
	var r solveResult
	var file string
	for {
		genMu.Lock()
		text := m.ob.smtText(true, m.mode)
		genMu.Unlock()
		m.runs++
		file = filepath.Join(m.dir, sanitize(m.ob.Name)+fmt.Sprintf(".model%d.smt2", m.runs))
		if err := os.WriteFile(file, []byte(text), 0o644); err != nil {
			m.failed = true
			return false
		}
		r = runSolver(context.Background(), solvers[0], file, 30000)
		if r.verdict == "sat" {
			break
		}
		if m.mode == "small" {
			// no counterexample in the small scope: fall back to the unconstrained query
			fmt.Fprintf(m.log, "small-scope model query: %s; falling back to the unconstrained model\n", r.verdict)
			m.mode = m.ob.SatMode
			if m.mode == "" {
				m.mode = "ground"
			}
			continue
		}
		fmt.Fprintf(m.log, "model query %s: %s\n", file, r.verdict)
		m.failed = true
		return false
	}
	m.ob.Model = r.output
	out := r.output
	if i := strings.Index(out, "("); i >= 0 {
		out = out[i:]
	}
	es := parseSexps(out)
	if len(es) == 0 || len(es[0].list) != len(all) {
		fmt.Fprintf(m.log, "cannot parse get-value output (%d values for %d terms)\n", func() int {
			if len(es) == 0 {
				return 0
			}
			return len(es[0].list)
		}(), len(all))
		m.failed = true
		return false
	}
	// a new run may give a different model: refresh everything
	m.cache = map[*Term]modelVal{}
	for k, pair := range es[0].list {
		if len(pair.list) == 2 {
			m.cache[all[k]] = parseModelVal(pair.list[1], m.x.c.bv)
		}
	}
	return true
}

func (m *modelReader) intOf(t *Term) (int64, bool) {
	if v, ok := m.x.c.litVal(t); ok {
		return v.Int64(), true
	}
	v, ok := m.cache[t]
	if !ok || !v.isInt {
		return 0, false
	}
	if !v.i.IsInt64() {
		return 0, false
	}
	return v.i.Int64(), true
}

// ---- building Go values ------------------------------------------------------------------------------

type goBuilder struct {
	m     *modelReader
	x     *Exec
	pkg   *types.Package
	depth int
	err   string
}

func (g *goBuilder) fail(format string, args ...interface{}) string {
	if g.err == "" {
		g.err = fmt.Sprintf(format, args...)
	}
	return "nil"
}

func (g *goBuilder) typeStr(t types.Type) string {
	return types.TypeString(t, func(p *types.Package) string {
		if p == g.pkg {
			return ""
		}
		return p.Name()
	})
}

// collect gathers the terms whose values are needed to build v (first level: scalars, lengths, refs).
func (g *goBuilder) leafTerms(v Value, t types.Type) []*Term {
	defer func() { recover() }()
	return g.x.flatten(v, t)
}

// goValue renders the model's value of v (type t) as a Go expression. It may need several solver
// runs (lengths first, then elements); need() batches them.
func (g *goBuilder) goValue(v Value, t types.Type, st *State) string {
	c := g.x.c
	if g.depth > 4 {
		return g.fail("value nesting too deep")
	}
	g.depth++
	defer func() { g.depth-- }()
	switch u := t.Underlying().(type) {
	case *types.Basic:
		switch {
		case u.Info()&types.IsBoolean != 0:
			tm := g.x.scalar(v)
			if c.isTrue(tm) {
				return "true"
			}
			if c.isFalse(tm) {
				return "false"
			}
			g.m.values([]*Term{tm})
			return strconv.FormatBool(g.m.cache[tm].b)
		case u.Info()&types.IsInteger != 0:
			tm := g.x.scalar(v)
			g.m.values([]*Term{tm})
			n, ok := g.m.intOf(tm)
			if !ok {
				return g.fail("no integer value for %s", c.Show(tm))
			}
			if u.Info()&types.IsUnsigned != 0 && n < 0 {
				return fmt.Sprintf("%s(%d)", g.typeStr(t), uint64(n))
			}
			return fmt.Sprintf("%s(%d)", g.typeStr(t), n)
		case u.Info()&types.IsFloat != 0:
			tm := g.x.scalar(v)
			g.m.values([]*Term{tm})
			mv := g.m.cache[tm]
			if !mv.isFP {
				return g.fail("no float value for %s (%s)", c.Show(tm), mv.raw)
			}
			return fmt.Sprintf("math.Float64frombits(0x%x)", mv.bits)
		case u.Info()&types.IsString != 0:
			s := v.(StrV)
			g.m.values([]*Term{s.Off, s.Len})
			n, ok1 := g.m.intOf(s.Len)
			if !ok1 || n < 0 || n > maxReplayLen {
				return g.fail("string length %d not replayable", n)
			}
			content := g.x.strContent(s.Ref)
			var ts []*Term
			for k := int64(0); k < n; k++ {
				ts = append(ts, c.Select(content, c.Add(s.Off, c.Int(k))))
			}
			g.m.values(ts)
			var bs []string
			for _, e := range ts {
				b, _ := g.m.intOf(e)
				bs = append(bs, fmt.Sprintf("%d", byte(b)))
			}
			str := "string([]byte{" + strings.Join(bs, ", ") + "})"
			if t.String() != "string" {
				return g.typeStr(t) + "(" + str + ")"
			}
			return str
		}
	case *types.Slice:
		s := v.(SliceV)
		g.m.values([]*Term{s.Arr, s.Off, s.Len})
		arr, _ := g.m.intOf(s.Arr)
		n, ok := g.m.intOf(s.Len)
		if !ok || n < 0 || n > maxReplayLen {
			return g.fail("slice length %d not replayable", n)
		}
		if arr == 0 {
			return g.typeStr(t) + "(nil)"
		}
		var elems []string
		for k := int64(0); k < n; k++ {
			ev := g.x.loadPtr(st, PtrV{Kind: PElem, Base: s.Arr, Idx: c.Add(s.Off, c.Int(k)), Elem: u.Elem()}, u.Elem())
			elems = append(elems, g.goValue(ev, u.Elem(), st))
		}
		return g.typeStr(t) + "{" + strings.Join(elems, ", ") + "}"
	case *types.Struct:
		sv := v.(StructV)
		var fs []string
		for k := 0; k < u.NumFields(); k++ {
			ft := u.Field(k).Type()
			if !replayableType(ft, 0) {
				continue // left at its zero value
			}
			fs = append(fs, u.Field(k).Name()+": "+g.goValue(sv.F[k], ft, st))
		}
		return g.typeStr(t) + "{" + strings.Join(fs, ", ") + "}"
	case *types.Pointer:
		p, ok := v.(PtrV)
		if !ok || p.Kind != PRef {
			return g.fail("pointer value not replayable")
		}
		g.m.values([]*Term{p.Base})
		r, _ := g.m.intOf(p.Base)
		if r == 0 {
			return "nil"
		}
		et := u.Elem()
		inner := g.x.loadPtr(st, p, et)
		if _, isStruct := et.Underlying().(*types.Struct); isStruct {
			return "&" + g.goValue(inner, et, st)
		}
		return fmt.Sprintf("func() *%s { v := %s; return &v }()", g.typeStr(et), g.goValue(inner, et, st))
	}
	return g.fail("type %s not replayable", t)
}

func replayableType(t types.Type, depth int) bool {
	if depth > 4 {
		return false
	}
	switch u := t.Underlying().(type) {
	case *types.Basic:
		return u.Info()&(types.IsBoolean|types.IsInteger|types.IsFloat|types.IsString) != 0
	case *types.Slice:
		return replayableType(u.Elem(), depth+1)
	case *types.Struct:
		return true // non-replayable fields are left zero
	case *types.Pointer:
		if n, ok := u.Elem().(*types.Named); ok && n.Obj().Pkg() != nil && n.Obj().Pkg().Path() == "regexp" {
			return false
		}
		return replayableType(u.Elem(), depth+1)
	}
	return false
}

// ---- contract expression -> Go --------------------------------------------------------------------------

type goTrans struct {
	x       *Exec
	pkgName string
	olds    []string // hoisted old() expressions (Go source)
	results []string // names of result variables
	resNames map[string]string
	err     string
	specs   map[string]bool
	bound   map[string]bool
}

func (g *goTrans) fail(format string, args ...interface{}) string {
	if g.err == "" {
		g.err = fmt.Sprintf(format, args...)
	}
	return "false"
}

func substCE(e *CE, m map[string]*CE) *CE {
	if e == nil {
		return nil
	}
	if e.Op == "ident" {
		if r, ok := m[e.Name]; ok {
			return &CE{Op: "paren", Args: []*CE{r}}
		}
		return e
	}
	n := *e
	n.Args = make([]*CE, len(e.Args))
	for i, a := range e.Args {
		n.Args[i] = substCE(a, m)
	}
	if len(e.Pats) > 0 {
		n.Pats = nil // patterns are irrelevant for evaluation
	}
	// do not substitute bound variables
	if e.Op == "forall" || e.Op == "exists" {
		mm := map[string]*CE{}
		for k, v := range m {
			mm[k] = v
		}
		for _, v := range e.Vars {
			delete(mm, v.Name)
		}
		n.Args = []*CE{substCE(e.Args[0], mm)}
	}
	return &n
}

func (g *goTrans) expr(e *CE, inOld bool) string {
	switch e.Op {
	case "paren":
		return "(" + g.expr(e.Args[0], inOld) + ")"
	case "int":
		return e.Int
	case "float":
		return e.Str
	case "bool":
		return e.Name
	case "string":
		return strconv.Quote(e.Str)
	case "nil":
		return "nil"
	case "ident":
		if g.bound[e.Name] {
			return e.Name
		}
		if r, ok := g.resNames[e.Name]; ok {
			if inOld {
				return g.fail("result inside old()")
			}
			return r
		}
		return e.Name
	case "sel":
		if e.Args[0].Op == "ident" && e.Args[0].Name == g.pkgName {
			return e.Name // own package qualifier
		}
		return g.expr(e.Args[0], inOld) + "." + e.Name
	case "index":
		return g.expr(e.Args[0], inOld) + "[" + g.expr(e.Args[1], inOld) + "]"
	case "slice":
		lo, hi := "", ""
		if e.Args[1] != nil {
			lo = g.expr(e.Args[1], inOld)
		}
		if e.Args[2] != nil {
			hi = g.expr(e.Args[2], inOld)
		}
		return g.expr(e.Args[0], inOld) + "[" + lo + ":" + hi + "]"
	case "unary":
		return "(" + e.Name + g.expr(e.Args[0], inOld) + ")"
	case "binary":
		a, b := g.expr(e.Args[0], inOld), g.expr(e.Args[1], inOld)
		switch e.Name {
		case "==>":
			return "(!(" + a + ") || (" + b + "))"
		case "<==>":
			return "((" + a + ") == (" + b + "))"
		}
		return "(" + a + " " + e.Name + " " + b + ")"
	case "old":
		if inOld {
			return g.expr(e.Args[0], true)
		}
		src := g.expr(e.Args[0], true)
		for k, o := range g.olds {
			if o == src {
				return fmt.Sprintf("govcOld%d", k)
			}
		}
		g.olds = append(g.olds, src)
		return fmt.Sprintf("govcOld%d", len(g.olds)-1)
	case "forall", "exists":
		if len(e.Vars) != 1 || e.Vars[0].Type != "int" {
			return g.fail("quantifier over %v not evaluable", e.Vars)
		}
		v := e.Vars[0].Name
		saved := g.bound[v]
		g.bound[v] = true
		body := g.expr(e.Args[0], inOld)
		g.bound[v] = saved
		fn := "govcForall"
		if e.Op == "exists" {
			fn = "govcExists"
		}
		return fmt.Sprintf("%s(func(%s int) bool { return %s })", fn, v, body)
	case "call":
		var args []string
		for _, a := range e.Args {
			args = append(args, g.expr(a, inOld))
		}
		switch e.Name {
		case "len", "cap", "min", "max", "float64":
			return e.Name + "(" + strings.Join(args, ", ") + ")"
		case "int64", "int":
			return "int(" + strings.Join(args, ", ") + ")" // contract integers are Go ints in replays
		case "isNaN":
			return "math.IsNaN(" + args[0] + ")"
		case "isInf":
			return "math.IsInf(" + args[0] + ", 0)"
		case "trunc":
			return "math.Trunc(" + args[0] + ")"
		case "ite":
			return "govcIte(" + strings.Join(args, ", ") + ")"
		case "sameview":
			return "govcSameView(" + strings.Join(args, ", ") + ")"
		case "samearr":
			return "govcSameArr(" + strings.Join(args, ", ") + ")"
		case "off":
			return "govcOff(" + args[0] + ")"
		case "same":
			return "govcSame(" + strings.Join(args, ", ") + ")"
		}
		if p, ok := g.x.w.cs.preds[e.Name]; ok {
			if len(p.Params) != len(e.Args) {
				return g.fail("predicate arity")
			}
			m := map[string]*CE{}
			for i, pr := range p.Params {
				m[pr.Name] = e.Args[i]
			}
			return "(" + g.expr(substCE(p.Body, m), inOld) + ")"
		}
		if _, ok := g.x.w.cs.specs[e.Name]; ok {
			g.specs[e.Name] = true
			return "spec_" + e.Name + "(" + strings.Join(args, ", ") + ")"
		}
		return g.fail("function %s not evaluable in a replay", e.Name)
	}
	return g.fail("expression form %s not evaluable in a replay", e.Op)
}

const replayHelpers = `
func govcForall(f func(int) bool) bool { for k := -4; k <= 600; k++ { if !f(k) { return false } }; return true }
func govcExists(f func(int) bool) bool { for k := -4; k <= 600; k++ { if govcTry(f, k) { return true } }; return false }
func govcTry(f func(int) bool, k int) (r bool) { defer func() { if recover() != nil { r = false } }(); return f(k) }
func govcIte[T any](c bool, a, b T) T { if c { return a }; return b }
func govcHdr(v any) (uintptr, int, bool) {
	rv := reflect.ValueOf(v)
	switch rv.Kind() {
	case reflect.String:
		return uintptr(unsafe.Pointer(unsafe.StringData(rv.String()))), rv.Len(), true
	case reflect.Slice:
		return rv.Pointer(), rv.Len(), true
	}
	return 0, 0, false
}
func govcSameView(a, b any) bool {
	pa, la, _ := govcHdr(a); pb, lb, _ := govcHdr(b)
	if la == 0 && lb == 0 { return true }
	return pa == pb && la == lb
}
func govcSameArr(a, b any) bool {
	pa, _, _ := govcHdr(a); pb, _, _ := govcHdr(b)
	rb := reflect.ValueOf(b)
	if rb.Kind() != reflect.Slice { return pa == pb }
	sz := uintptr(1)
	if rb.Type().Elem().Size() > 0 { sz = rb.Type().Elem().Size() }
	return pa >= pb && pa <= pb+uintptr(rb.Cap())*sz
}
func govcOff(a any) int { p, _, _ := govcHdr(a); return int(p) }
func govcSame(a, b any) bool {
	ra, rb := reflect.ValueOf(a), reflect.ValueOf(b)
	return govcSameV(ra, rb)
}
func govcNum(v reflect.Value) (float64, bool, bool) {
	switch v.Kind() {
	case reflect.Int, reflect.Int8, reflect.Int16, reflect.Int32, reflect.Int64:
		return float64(v.Int()), true, false
	case reflect.Uint, reflect.Uint8, reflect.Uint16, reflect.Uint32, reflect.Uint64:
		return float64(v.Uint()), true, false
	case reflect.Float32, reflect.Float64:
		return v.Float(), true, true
	}
	return 0, false, false
}
func govcSameV(ra, rb reflect.Value) bool {
	if na, ok, fa := govcNum(ra); ok {
		nb, ok2, fb := govcNum(rb)
		if !ok2 { return false }
		if fa && fb { return math.Float64bits(na) == math.Float64bits(nb) || (math.IsNaN(na) && math.IsNaN(nb)) }
		return na == nb
	}
	if ra.Kind() != rb.Kind() { return false }
	switch ra.Kind() {
	case reflect.String:
		return ra.String() == rb.String()
	case reflect.Bool:
		return ra.Bool() == rb.Bool()
	case reflect.Struct:
		for i := 0; i < ra.NumField(); i++ { if !govcSameV(ra.Field(i), rb.Field(i)) { return false } }
		return true
	case reflect.Slice:
		if ra.Len() != rb.Len() { return false }
		for i := 0; i < ra.Len(); i++ { if !govcSameV(ra.Index(i), rb.Index(i)) { return false } }
		return true
	case reflect.Ptr:
		return ra.Pointer() == rb.Pointer()
	}
	return false
}
`

// ---- driver ------------------------------------------------------------------------------------------------

// tryReplay replays a solver model on the real code (go test -overlay).
func tryReplay(w *World, cfg runConfig, ob *Obligation) (res replayResult) {
	var log strings.Builder
	defer func() {
		if r := recover(); r != nil {
			fmt.Fprintf(&log, "replay generator gave up: %v\n", r)
			res = replayResult{false, log.String()}
		}
	}()
	x := ob.ctx
	if x == nil || x.fn == nil || x.entry == nil {
		return replayResult{false, "no replay: not a function-level obligation\n"}
	}
	fn := x.fn
	if fn.Pkg == nil || fn.Parent() != nil {
		return replayResult{false, "no replay: not a package-level function or method\n"}
	}
	dir := filepath.Join(cfg.outDir, "replay", cfg.prop, sanitize(ob.Name))
	os.MkdirAll(dir, 0o755)
	ob.SmallScope = x.smallScope(fn)
	m := &modelReader{ob: ob, x: x, dir: dir, cache: map[*Term]modelVal{}, log: &log}
	gb := &goBuilder{m: m, x: x, pkg: fn.Pkg.Pkg}
	// inputs
	var decls []string
	var argNames []string
	for _, p := range fn.Params {
		if !replayableType(p.Type(), 0) {
			return replayResult{false, fmt.Sprintf("no replay: parameter %s of type %s cannot be built from a model\n", p.Name(), p.Type())}
		}
	}
	// two passes: the first run fixes lengths and references, the second adds element values
	var built []string
	for pass := 0; pass < 3; pass++ {
		built = nil
		gb.err = ""
		for _, p := range fn.Params {
			v := x.regs[p]
			// parameters were overwritten if the function reassigns them: use the entry environment
			if tv, ok := x.envFor(fn, x.entry, x.entry, nil).names[p.Name()]; ok {
				v = tv.V
			}
			built = append(built, gb.goValue(v, p.Type(), x.entry))
		}
		if m.failed {
			return replayResult{false, log.String() + "no replay: the model could not be read back\n"}
		}
	}
	if gb.err != "" {
		return replayResult{false, log.String() + "no replay: " + gb.err + "\n"}
	}
	for i, p := range fn.Params {
		name := p.Name()
		if name == "" || name == "_" {
			name = fmt.Sprintf("arg%d", i)
		}
		argNames = append(argNames, name)
		decls = append(decls, fmt.Sprintf("\t%s := %s\n\t_ = %s\n", name, built[i], name))
	}
	// the call
	sig := fn.Signature
	var call string
	callArgs := argNames
	if sig.Recv() != nil {
		call = argNames[0] + "." + fn.Name() + "(" + strings.Join(argNames[1:], ", ") + ")"
		callArgs = argNames[1:]
	} else {
		call = fn.Name() + "(" + strings.Join(callArgs, ", ") + ")"
	}
	gt := &goTrans{x: x, pkgName: fn.Pkg.Pkg.Name(), resNames: map[string]string{}, specs: map[string]bool{}, bound: map[string]bool{}}
	var resVars []string
	for k := 0; k < sig.Results().Len(); k++ {
		rv := fmt.Sprintf("govcRes%d", k)
		resVars = append(resVars, rv)
		gt.resNames[fmt.Sprintf("result%d", k)] = rv
		if k == 0 {
			gt.resNames["result"] = rv
		}
		if n := sig.Results().At(k).Name(); n != "" && n != "_" {
			gt.resNames[n] = rv
		}
	}
	safety := false
	switch ob.Kind {
	case "bounds", "slice", "nilptr", "nonzero", "assert-type", "nilmap", "makeslice", "panic-unreachable":
		safety = true
	}
	clauseGo := ""
	var requiresGo []string
	if !safety {
		var cl *Clause
		if x.fc != nil {
			for i := range x.fc.Ensures {
				if x.fc.Ensures[i].Text == ob.Clause {
					cl = &x.fc.Ensures[i]
				}
			}
		}
		if cl == nil {
			return replayResult{false, log.String() + fmt.Sprintf("no replay: obligations of kind %s are not replayed (clause %q)\n", ob.Kind, ob.Clause)}
		}
		clauseGo = gt.expr(cl.Expr, false)
	}
	if x.fc != nil {
		for _, rq := range x.fc.Requires {
			requiresGo = append(requiresGo, gt.expr(rq.Expr, true))
		}
	}
	if gt.err != "" {
		return replayResult{false, log.String() + "no replay: " + gt.err + "\n"}
	}
	// reference implementations of the spec functions used
	refSrc := ""
	for name := range gt.specs {
		data, err := os.ReadFile(filepath.Join("/verif/spec/ref", name+".go.txt"))
		if err != nil {
			return replayResult{false, log.String() + fmt.Sprintf("no replay: no executable reference for spec function %s (/verif/spec/ref/%s.go.txt)\n", name, name)}
		}
		refSrc += string(data) + "\n"
	}
	var sb strings.Builder
	fmt.Fprintf(&sb, "package %s\n\nimport (\n\t\"fmt\"\n\t\"math\"\n\t\"reflect\"\n\t\"testing\"\n\t\"unsafe\"\n)\n\nvar _ = math.Inf\nvar _ = reflect.ValueOf\nvar _ unsafe.Pointer\n", fn.Pkg.Pkg.Name())
	sb.WriteString(replayHelpers)
	sb.WriteString(refSrc)
	fmt.Fprintf(&sb, "\n// replay of obligation %s\nfunc TestGovcReplay(t *testing.T) {\n", ob.Name)
	for _, d := range decls {
		sb.WriteString(d)
	}
	for k, rq := range requiresGo {
		fmt.Fprintf(&sb, "\tif !govcTryB(func() bool { return %s }) {\n\t\tfmt.Println(\"GOVC-REPLAY: precondition %d does not hold on the model (spurious model)\")\n\t\treturn\n\t}\n", rq, k)
	}
	for k, o := range gt.olds {
		fmt.Fprintf(&sb, "\tgovcOld%d := %s\n\t_ = govcOld%d\n", k, o, k)
	}
	sb.WriteString("\tdefer func() {\n\t\tif r := recover(); r != nil {\n\t\t\tfmt.Printf(\"GOVC-REPLAY: PANIC %v\\n\", r)\n\t\t}\n\t}()\n")
	if len(resVars) > 0 {
		fmt.Fprintf(&sb, "\t%s := %s\n", strings.Join(resVars, ", "), call)
		for _, rv := range resVars {
			fmt.Fprintf(&sb, "\t_ = %s\n", rv)
		}
	} else {
		fmt.Fprintf(&sb, "\t%s\n", call)
	}
	for i, rv := range resVars {
		fmt.Fprintf(&sb, "\tfmt.Printf(\"GOVC-REPLAY: result%d = %%#v\\n\", %s)\n", i, rv)
	}
	if safety {
		sb.WriteString("\tfmt.Println(\"GOVC-REPLAY: NO-PANIC\")\n")
	} else {
		fmt.Fprintf(&sb, "\tif %s {\n\t\tfmt.Println(\"GOVC-REPLAY: HOLDS\")\n\t} else {\n\t\tfmt.Println(\"GOVC-REPLAY: VIOLATED\")\n\t}\n", clauseGo)
	}
	sb.WriteString("}\n\nfunc govcTryB(f func() bool) (r bool) { defer func() { if recover() != nil { r = false } }(); return f() }\n")
	testSrc := sb.String()
	// imports for package qualifiers used by the translated clause (e.g. compiler.Less)
	extra := ""
	for _, p := range w.pkgs {
		if p.Types == fn.Pkg.Pkg {
			for path, ip := range p.Imports {
				n := ip.Name
				if n == "fmt" || n == "math" || n == "reflect" || n == "testing" || n == "unsafe" || n == "" {
					continue
				}
				body := testSrc[strings.Index(testSrc, "func TestGovcReplay"):]
				if strings.Contains(body, n+".") {
					extra += fmt.Sprintf("\t%q\n", path)
				}
			}
		}
	}
	if extra != "" {
		testSrc = strings.Replace(testSrc, "import (\n", "import (\n"+extra, 1)
	}
	testFile := filepath.Join(dir, "zz_govc_replay_test.go")
	os.WriteFile(testFile, []byte(testSrc), 0o644)
	pkgDir := ""
	for _, p := range w.pkgs {
		if p.Types == fn.Pkg.Pkg && len(p.GoFiles) > 0 {
			pkgDir = filepath.Dir(p.GoFiles[0])
		}
	}
	if pkgDir == "" {
		return replayResult{false, log.String() + "no replay: package directory not found\n"}
	}
	ov := map[string]interface{}{"Replace": map[string]string{filepath.Join(pkgDir, "zz_govc_replay_test.go"): testFile}}
	ovData, _ := json.Marshal(ov)
	ovFile := filepath.Join(dir, "overlay.json")
	os.WriteFile(ovFile, ovData, 0o644)
	ctx, cancel := context.WithTimeout(context.Background(), 180*time.Second)
	defer cancel()
	cmd := exec.CommandContext(ctx, "go", "test", "-overlay", ovFile, "-vet=off", "-count=1", "-timeout", "60s", "-run", "^TestGovcReplay$", "-v", ".")
	cmd.Dir = pkgDir
	cmd.Env = append(os.Environ(), "GOFLAGS=-mod=mod", "GOPROXY=off", "GOSUMDB=off", "GOTOOLCHAIN=local")
	out, _ := cmd.CombinedOutput()
	fmt.Fprintf(&log, "replay test: %s\ncommand: (cd %s && go test -overlay %s -vet=off -count=1 -timeout 60s -run '^TestGovcReplay$' -v .)\n", testFile, pkgDir, ovFile)
	fmt.Fprintf(&log, "inputs:\n")
	for _, d := range decls {
		log.WriteString(d)
	}
	outS := string(out)
	if len(outS) > 6000 {
		outS = outS[:6000] + "…\n"
	}
	fmt.Fprintf(&log, "output:\n%s\n", outS)
	confirmed := false
	switch {
	case strings.Contains(string(out), "spurious model"):
		log.WriteString("verdict: the solver's model does not satisfy the precondition on the real code (incomplete instantiation): not confirmed\n")
	case safety && strings.Contains(string(out), "GOVC-REPLAY: PANIC"):
		confirmed = true
		log.WriteString("verdict: CONFIRMED, the real function panics on this input\n")
	case !safety && strings.Contains(string(out), "GOVC-REPLAY: VIOLATED"):
		confirmed = true
		log.WriteString("verdict: CONFIRMED, the clause is false on the real function's result for this input\n")
	case !safety && strings.Contains(string(out), "GOVC-REPLAY: PANIC"):
		confirmed = true
		log.WriteString("verdict: CONFIRMED (the real function panics on this input)\n")
	default:
		log.WriteString("verdict: not confirmed by the replay\n")
	}
	return replayResult{confirmed, log.String()}
}

var _ = ssa.NaiveForm
