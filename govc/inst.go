package main

// Ground instantiation of quantified hypotheses (E-matching done by us), used
// to obtain quantifier-free queries on which solvers can return models.

import "sort"

func (c *Ctx) hasQuant(t *Term, memo map[*Term]bool) bool {
	if v, ok := memo[t]; ok {
		return v
	}
	r := t.op == "forall"
	if !r {
		for _, a := range t.args {
			if c.hasQuant(a, memo) {
				r = true
				break
			}
		}
	}
	memo[t] = r
	return r
}

// subst rebuilds t with bound variables replaced.
func (c *Ctx) subst(t *Term, m map[*Term]*Term, memo map[*Term]*Term) *Term {
	if r, ok := m[t]; ok {
		return r
	}
	if !t.bound {
		return t
	}
	if r, ok := memo[t]; ok {
		return r
	}
	if t.leaf {
		return t
	}
	var r *Term
	if t.op == "forall" {
		n := qnvars[t]
		body := c.subst(t.args[n], m, memo)
		var pats [][]*Term
		for _, p := range qpats[t] {
			var np []*Term
			for _, x := range p {
				np = append(np, c.subst(x, m, memo))
			}
			pats = append(pats, np)
		}
		r = c.Forall(t.args[:n], body, pats)
	} else {
		args := make([]*Term, len(t.args))
		for i, a := range t.args {
			args[i] = c.subst(a, m, memo)
		}
		r = c.rebuild(t, args)
	}
	memo[t] = r
	return r
}

// rebuild re-applies t's operator to new arguments, through the simplifying constructors
// where that matters for later matching.
func (c *Ctx) rebuild(t *Term, args []*Term) *Term {
	switch t.op {
	case "and":
		return c.And(args...)
	case "or":
		return c.Or(args...)
	case "not":
		return c.Not(args[0])
	case "=>":
		return c.Implies(args[0], args[1])
	case "=":
		return c.Eq(args[0], args[1])
	case "ite":
		return c.Ite(args[0], args[1], args[2])
	case "select":
		return c.Select(args[0], args[1])
	case "+":
		if !c.bv {
			return c.Add(args[0], args[1])
		}
	case "-":
		if !c.bv && len(args) == 2 {
			return c.Sub(args[0], args[1])
		}
	case "<=":
		if !c.bv {
			return c.Le(args[0], args[1])
		}
	case "<":
		if !c.bv {
			return c.Lt(args[0], args[1])
		}
	case "bvadd":
		return c.Add(args[0], args[1])
	case "bvsub":
		return c.Sub(args[0], args[1])
	}
	return c.mk(t.op, t.sort, args...)
}

// match pattern p against ground term g, extending the substitution.
func (c *Ctx) match(p, g *Term, vars map[*Term]bool, m map[*Term]*Term) bool {
	if vars[p] {
		if old, ok := m[p]; ok {
			return old == g
		}
		if p.sort != g.sort {
			return false
		}
		m[p] = g
		return true
	}
	if !p.bound {
		return p == g
	}
	if p.op != g.op || len(p.args) != len(g.args) || p.sort != g.sort {
		// arithmetic patterns such as k+1 also match a literal or any term g by solving for k
		if (p.op == "+" || p.op == "bvadd") && len(p.args) == 2 && vars[p.args[0]] && !p.args[1].bound {
			if _, ok := m[p.args[0]]; !ok && p.sort == g.sort {
				m[p.args[0]] = c.Sub(g, p.args[1])
				return true
			}
		}
		return false
	}
	for i := range p.args {
		if !c.match(p.args[i], g.args[i], vars, m) {
			return false
		}
	}
	return true
}

func collectSub(t *Term, seen map[*Term]bool, out *[]*Term) {
	if seen[t] {
		return
	}
	seen[t] = true
	if t.op == "forall" {
		return // do not descend under binders
	}
	for _, a := range t.args {
		collectSub(a, seen, out)
	}
	if !t.leaf && !t.bound {
		*out = append(*out, t)
	}
}

// groundInstances returns quantifier-free consequences of the quantified hypotheses,
// matched against the ground terms of the query (rounds of E-matching).
func (c *Ctx) groundInstances(hyps []*Term, goal *Term, rounds int) (qf []*Term, dropped int) {
	memoQ := map[*Term]bool{}
	var quants []*Term
	for _, h := range hyps {
		if c.hasQuant(h, memoQ) {
			if h.op == "forall" {
				quants = append(quants, h)
			} else {
				dropped++
			}
		} else {
			qf = append(qf, h)
		}
	}
	done := map[[2]int]bool{}
	for r := 0; r < rounds; r++ {
		seen := map[*Term]bool{}
		var ground []*Term
		for _, h := range qf {
			collectSub(h, seen, &ground)
		}
		collectSub(goal, seen, &ground)
		byOp := map[string][]*Term{}
		for _, g := range ground {
			byOp[g.op] = append(byOp[g.op], g)
		}
		added := 0
		for _, q := range quants {
			n := qnvars[q]
			vars := map[*Term]bool{}
			for _, v := range q.args[:n] {
				vars[v] = true
			}
			body := q.args[n]
			for _, pat := range qpats[q] {
				subs := []map[*Term]*Term{{}}
				for _, p := range pat {
					var next []map[*Term]*Term
					cands := byOp[p.op]
					for _, s := range subs {
						for _, g := range cands {
							m := map[*Term]*Term{}
							for k, v := range s {
								m[k] = v
							}
							if c.match(p, g, vars, m) {
								next = append(next, m)
							}
						}
					}
					subs = next
					if len(subs) > 400 {
						subs = subs[:400]
					}
				}
				for _, s := range subs {
					if len(s) != n {
						continue
					}
					// dedupe by (quantifier, instance ids)
					key := [2]int{q.id, 0}
					h := 17
					var ids []int
					for _, v := range q.args[:n] {
						ids = append(ids, s[v].id)
					}
					for _, id := range ids {
						h = h*1000003 + id
					}
					key[1] = h
					if done[key] {
						continue
					}
					done[key] = true
					inst := c.subst(body, s, map[*Term]*Term{})
					if c.hasQuant(inst, memoQ) {
						if inst.op == "forall" {
							quants = append(quants, inst)
						}
						continue
					}
					qf = append(qf, inst)
					added++
				}
			}
		}
		if added == 0 {
			break
		}
	}
	sort.SliceStable(qf, func(i, j int) bool { return false })
	return qf, dropped + len(quants)
}
