package main

// Ground instantiation of quantified hypotheses (E-matching done by us), used
// to obtain quantifier-free queries on which solvers can return models.

import "strings"

func (c *Ctx) hasQuant(t *Term, memo map[*Term]bool) bool {
	if v, ok := memo[t]; ok {
		return v
	}
	r := t.op == "forall"
	if !r {
		for _, a := range t.args {
			if c.hasQuant(a, memo) {
				r = true
				break
			}
		}
	}
	memo[t] = r
	return r
}

// subst rebuilds t with bound variables replaced.
func (c *Ctx) subst(t *Term, m map[*Term]*Term, memo map[*Term]*Term) *Term {
	if r, ok := m[t]; ok {
		return r
	}
	if !t.bound {
		return t
	}
	if r, ok := memo[t]; ok {
		return r
	}
	if t.leaf {
		return t
	}
	var r *Term
	if t.op == "forall" {
		n := qnvars[t]
		body := c.subst(t.args[n], m, memo)
		var pats [][]*Term
		for _, p := range qpats[t] {
			var np []*Term
			for _, x := range p {
				np = append(np, c.subst(x, m, memo))
			}
			pats = append(pats, np)
		}
		r = c.Forall(t.args[:n], body, pats)
	} else {
		args := make([]*Term, len(t.args))
		for i, a := range t.args {
			args[i] = c.subst(a, m, memo)
		}
		r = c.rebuild(t, args)
	}
	memo[t] = r
	return r
}

// rebuild re-applies t's operator to new arguments, through the simplifying constructors
// where that matters for later matching.
func (c *Ctx) rebuild(t *Term, args []*Term) *Term {
	switch t.op {
	case "and":
		return c.And(args...)
	case "or":
		return c.Or(args...)
	case "not":
		return c.Not(args[0])
	case "=>":
		return c.Implies(args[0], args[1])
	case "=":
		return c.Eq(args[0], args[1])
	case "ite":
		return c.Ite(args[0], args[1], args[2])
	case "select":
		return c.Select(args[0], args[1])
	case "+":
		if !c.bv {
			return c.Add(args[0], args[1])
		}
	case "-":
		if !c.bv && len(args) == 2 {
			return c.Sub(args[0], args[1])
		}
	case "<=":
		if !c.bv {
			return c.Le(args[0], args[1])
		}
	case "<":
		if !c.bv {
			return c.Lt(args[0], args[1])
		}
	case "bvadd":
		return c.Add(args[0], args[1])
	case "bvsub":
		return c.Sub(args[0], args[1])
	}
	return c.mk(t.op, t.sort, args...)
}

// match pattern p against ground term g, extending the substitution.
func (c *Ctx) match(p, g *Term, vars map[*Term]bool, m map[*Term]*Term) bool {
	if vars[p] {
		if old, ok := m[p]; ok {
			return old == g
		}
		if p.sort != g.sort {
			return false
		}
		m[p] = g
		return true
	}
	if !p.bound {
		return p == g
	}
	// arithmetic patterns such as k+1 match any term g of the same sort by solving for k
	if (p.op == "+" || p.op == "bvadd") && len(p.args) == 2 && vars[p.args[0]] && !p.args[1].bound && p.sort == g.sort {
		want := c.Sub(g, p.args[1])
		if old, ok := m[p.args[0]]; ok {
			return old == want
		}
		m[p.args[0]] = want
		return true
	}
	// ... and offset + k (a slice element pattern: the ground index may have been normalised to any shape)
	if (p.op == "+" || p.op == "bvadd") && len(p.args) == 2 && vars[p.args[1]] && !p.args[0].bound && p.sort == g.sort {
		want := c.Sub(g, p.args[0])
		if old, ok := m[p.args[1]]; ok {
			return old == want
		}
		m[p.args[1]] = want
		return true
	}
	if p.op != g.op || len(p.args) != len(g.args) || p.sort != g.sort {
		return false
	}
	for i := range p.args {
		if !c.match(p.args[i], g.args[i], vars, m) {
			return false
		}
	}
	return true
}

func collectSub(t *Term, seen map[*Term]bool, out *[]*Term) {
	if seen[t] {
		return
	}
	seen[t] = true
	if t.op == "forall" {
		return // do not descend under binders
	}
	for _, a := range t.args {
		collectSub(a, seen, out)
	}
	if !t.leaf && !t.bound {
		*out = append(*out, t)
	}
}

type qitem struct {
	guard *Term // quantifier-free guard (nil: none)
	q     *Term // a forall term
}

// splitFormula decomposes a formula (asserted true) into quantifier-free conjuncts and guarded
// universally quantified items; anything else that contains a quantifier is dropped (sound: fewer
// hypotheses).
func (c *Ctx) splitFormula(h *Term, guard *Term, memoQ map[*Term]bool, qf *[]*Term, qs *[]qitem, dropped *int) {
	if !c.hasQuant(h, memoQ) {
		if guard != nil {
			h = c.Implies(guard, h)
		}
		*qf = append(*qf, h)
		return
	}
	switch {
	case h.op == "forall":
		*qs = append(*qs, qitem{guard, h})
	case h.op == "and":
		for _, a := range h.args {
			c.splitFormula(a, guard, memoQ, qf, qs, dropped)
		}
	case h.op == "=>" && !c.hasQuant(h.args[0], memoQ):
		g := h.args[0]
		if guard != nil {
			g = c.And(guard, g)
		}
		c.splitFormula(h.args[1], g, memoQ, qf, qs, dropped)
	case h.op == "not" && h.args[0].op == "forall":
		// skolemise: not (forall v. B)  ==>  not B[v := fresh constants]
		q := h.args[0]
		n := qnvars[q]
		m := map[*Term]*Term{}
		for _, v := range q.args[:n] {
			m[v] = c.Fresh("sk_"+strings.SplitN(v.op, "?", 2)[0], v.sort)
		}
		c.splitFormula(c.Not(c.subst(q.args[n], m, map[*Term]*Term{})), guard, memoQ, qf, qs, dropped)
	case h.op == "not" && h.args[0].op == "and":
		// a disjunction of negations: keep as one formula if quantifier-free after skolemising each part
		var parts []*Term
		okAll := true
		for _, a := range h.args[0].args {
			na := c.Not(a)
			if c.hasQuant(na, memoQ) {
				if na.op == "not" && na.args[0].op == "forall" {
					q := na.args[0]
					n := qnvars[q]
					m := map[*Term]*Term{}
					for _, v := range q.args[:n] {
						m[v] = c.Fresh("sk_"+strings.SplitN(v.op, "?", 2)[0], v.sort)
					}
					na = c.Not(c.subst(q.args[n], m, map[*Term]*Term{}))
				}
				if c.hasQuant(na, map[*Term]bool{}) {
					okAll = false
					break
				}
			}
			parts = append(parts, na)
		}
		if !okAll {
			*dropped++
			return
		}
		d := c.Or(parts...)
		if guard != nil {
			d = c.Implies(guard, d)
		}
		*qf = append(*qf, d)
	case h.op == "not" && h.args[0].op == "=>":
		c.splitFormula(h.args[0].args[0], guard, memoQ, qf, qs, dropped)
		c.splitFormula(c.Not(h.args[0].args[1]), guard, memoQ, qf, qs, dropped)
	case h.op == "not" && h.args[0].op == "or":
		for _, a := range h.args[0].args {
			c.splitFormula(c.Not(a), guard, memoQ, qf, qs, dropped)
		}
	case h.op == "ite" && !c.hasQuant(h.args[0], memoQ):
		g1, g2 := h.args[0], c.Not(h.args[0])
		if guard != nil {
			g1, g2 = c.And(guard, g1), c.And(guard, g2)
		}
		c.splitFormula(h.args[1], g1, memoQ, qf, qs, dropped)
		c.splitFormula(h.args[2], g2, memoQ, qf, qs, dropped)
	default:
		*dropped++
	}
}

// groundInstances returns quantifier-free consequences of hyps ∧ ¬goal: the quantifier-free parts
// plus instances of the (guarded) universally quantified parts, matched against the ground terms
// of the query by rounds of E-matching on the declared patterns. If the result is unsat, so is
// hyps ∧ ¬goal. If it is sat the model is a candidate counterexample.
func (c *Ctx) groundInstances(hyps []*Term, goal *Term, rounds int) (qf []*Term, dropped int) {
	memoQ := map[*Term]bool{}
	var quants []qitem
	for _, h := range hyps {
		c.splitFormula(h, nil, memoQ, &qf, &quants, &dropped)
	}
	c.splitFormula(c.Not(goal), nil, memoQ, &qf, &quants, &dropped)
	done := map[[3]int]bool{}
	rowDone := map[*Term]bool{}
	for r := 0; r < rounds; r++ {
		seen := map[*Term]bool{}
		var ground []*Term
		for _, h := range qf {
			collectSub(h, seen, &ground)
		}
		// read-over-write instances: select(store(a,i,v),j) = ite(i=j, v, select(a,j)). They are valid
		// array axioms; adding them makes select(a,j) a ground term that quantified hypotheses about
		// the array before the write can be matched against.
		rowAdded := 0
		for _, g := range ground {
			if g.op != "select" || len(g.args) != 2 {
				continue
			}
			a, j := g.args[0], g.args[1]
			for depth := 0; depth < 4 && a.op == "store" && len(a.args) == 3; depth++ {
				inner := c.mk("select", g.sort, a.args[0], j)
				fact := c.mk("=", SBool, c.mk("select", g.sort, a, j), c.mk("ite", g.sort, c.mk("=", SBool, a.args[1], j), a.args[2], inner))
				if !rowDone[fact] {
					rowDone[fact] = true
					qf = append(qf, fact)
					rowAdded++
					if !seen[inner] {
						seen[inner] = true
						ground = append(ground, inner)
					}
				}
				a = a.args[0]
			}
		}
		if c.seedSmall && r == 0 {
			// small-scope seeding (model extraction only): every spec-function application also
			// stands for its variants with small integer literals in its integer argument
			// positions, so that recursively defined spec functions are unfolded from 0 upwards
			var extra []*Term
			for _, g := range ground {
				if !strings.HasPrefix(g.op, "spec_") {
					continue
				}
				for i, a := range g.args {
					if a.sort != c.IntSort() {
						continue
					}
					// sequence arguments are (content, off, len): only seed arguments that are not
					// immediately preceded by an array argument's offset/length pair
					if i >= 1 && strings.HasPrefix(string(g.args[i-1].sort), "(Array") {
						continue
					}
					if i >= 2 && strings.HasPrefix(string(g.args[i-2].sort), "(Array") {
						continue
					}
					for lit := int64(0); lit <= 8; lit++ {
						na := append([]*Term{}, g.args...)
						na[i] = c.Int(lit)
						t := c.mk(g.op, g.sort, na...)
						if !seen[t] {
							seen[t] = true
							extra = append(extra, t)
						}
					}
				}
			}
			ground = append(ground, extra...)
		}
		byOp := map[string][]*Term{}
		for _, g := range ground {
			byOp[g.op] = append(byOp[g.op], g)
		}
		added := 0
		nq := len(quants)
		for qi := 0; qi < nq; qi++ {
			it := quants[qi]
			q := it.q
			n := qnvars[q]
			vars := map[*Term]bool{}
			for _, v := range q.args[:n] {
				vars[v] = true
			}
			body := q.args[n]
			for _, pat := range qpats[q] {
				subs := []map[*Term]*Term{{}}
				for _, p := range pat {
					var next []map[*Term]*Term
					cands := byOp[p.op]
					for _, s := range subs {
						for _, g := range cands {
							m := map[*Term]*Term{}
							for k, v := range s {
								m[k] = v
							}
							if c.match(p, g, vars, m) {
								next = append(next, m)
							}
						}
					}
					subs = next
					if len(subs) > 600 {
						subs = subs[:600]
					}
				}
				for _, s := range subs {
					if len(s) != n {
						continue
					}
					key := [3]int{q.id, 17, 0}
					if it.guard != nil {
						key[2] = it.guard.id
					}
					for _, v := range q.args[:n] {
						key[1] = key[1]*1000003 + s[v].id
					}
					if done[key] {
						continue
					}
					done[key] = true
					inst := c.subst(body, s, map[*Term]*Term{})
					before := len(qf)
					c.splitFormula(inst, it.guard, memoQ, &qf, &quants, &dropped)
					added += len(qf) - before
				}
			}
		}
		if added == 0 && len(quants) == nq {
			break
		}
	}
	return qf, dropped + len(quants)
}

// replace rebuilds t with the given (closed) subterms replaced, through the simplifying constructors:
// used to specialise a query to one case of a join (the reach condition of one incoming path true,
// the ones tried before it false), which collapses the ite-merged terms of that join.
func (c *Ctx) replace(t *Term, m map[*Term]*Term, memo map[*Term]*Term) *Term {
	if r, ok := m[t]; ok {
		return r
	}
	if t.leaf || len(t.args) == 0 {
		return t
	}
	if r, ok := memo[t]; ok {
		return r
	}
	var r *Term
	if t.op == "forall" {
		n := qnvars[t]
		body := c.replace(t.args[n], m, memo)
		var pats [][]*Term
		for _, p := range qpats[t] {
			var np []*Term
			for _, x := range p {
				np = append(np, c.replace(x, m, memo))
			}
			pats = append(pats, np)
		}
		if body == t.args[n] {
			r = t
		} else {
			r = c.Forall(t.args[:n], body, pats)
		}
	} else {
		changed := false
		args := make([]*Term, len(t.args))
		for i, a := range t.args {
			args[i] = c.replace(a, m, memo)
			if args[i] != a {
				changed = true
			}
		}
		if !changed {
			r = t
		} else {
			r = c.rebuild(t, args)
		}
	}
	memo[t] = r
	return r
}
