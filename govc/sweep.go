package main

// Sink sweep (C12): every call that can open a file or start a process, anywhere in the module's
// non-test code, must lie in a function that the contract file lists (and that is under a contract
// for the property). The sweep is syntactic over the SSA of the whole module, rebuilt every run.

import (
	"fmt"
	"go/token"
	"sort"
	"strings"

	"golang.org/x/tools/go/ssa"
	"golang.org/x/tools/go/ssa/ssautil"
)

// SinkSpec: "sinks[Cnn] <name>: field <T.f> | call <callee> ... ; in <function> ..."
type SinkSpec struct {
	Name    string
	Fields  []string // struct fields holding sink functions: calls through them are sinks
	Calls   []string // callee keys (funcKey) that are sinks
	CallAt  map[string][]string // callee key -> the only functions that may call it ("@" list; absent: any In function)
	Values  []string // functions that may be mentioned as values only where listed in ValueIn
	ValueIn []string
	In      []string // functions allowed to contain sink calls
	Outside []string // functions with sinks that do not act for the AWK program (listed, reported)
	Props   []string
	Where   string
	// guard fields: "writers T.f T.g @ F G": only F, G may write (or take the address of) T.f, T.g,
	// and only they may store a whole T
	GuardFields []string
	Writers     []string
}

func parseSinkSpec(rest string, props []string, where string) (*SinkSpec, error) {
	i := strings.Index(rest, ":")
	if i < 0 {
		return nil, fmt.Errorf("expected: sinks <name>: field ... ; call ... ; in ...")
	}
	s := &SinkSpec{Name: strings.TrimSpace(rest[:i]), Props: props, Where: where}
	for _, part := range strings.Split(rest[i+1:], ";") {
		f := strings.Fields(part)
		if len(f) == 0 {
			continue
		}
		switch f[0] {
		case "field":
			s.Fields = append(s.Fields, f[1:]...)
		case "call":
			// "call a b c @ F G": a, b, c may only be called in F, G (an empty list: nowhere)
			names, at, hasAt := f[1:], []string(nil), false
			for i, w := range f[1:] {
				if w == "@" {
					names, at, hasAt = f[1:1+i], f[2+i:], true
					break
				}
			}
			s.Calls = append(s.Calls, names...)
			if hasAt {
				if s.CallAt == nil {
					s.CallAt = map[string][]string{}
				}
				for _, n := range names {
					s.CallAt[n] = append([]string{}, at...)
				}
			}
		case "writers":
			for i, w := range f[1:] {
				if w == "@" {
					s.GuardFields = append(s.GuardFields, f[1:1+i]...)
					s.Writers = append(s.Writers, f[2+i:]...)
					break
				}
			}
		case "value":
			s.Values = append(s.Values, f[1:]...)
		case "value-in":
			s.ValueIn = append(s.ValueIn, f[1:]...)
		case "in":
			s.In = append(s.In, f[1:]...)
		case "outside":
			// functions that open files for the tool itself, not on behalf of the AWK program
			s.Outside = append(s.Outside, f[1:]...)
		default:
			return nil, fmt.Errorf("unknown sinks part %q", f[0])
		}
	}
	return s, nil
}

func (w *World) verifySinks(sp *SinkSpec) (res *UnitResult) {
	res = &UnitResult{Name: "sinks " + sp.Name, Kind: "sweep"}
	fc := &FuncContract{Name: "sinks." + sp.Name, Props: sp.Props}
	x := NewExec(w, nil, fc)
	x.curProps = sp.Props
	res.Ctx = x
	isField := map[string]bool{}
	for _, f := range sp.Fields {
		isField[f] = true
	}
	isCall := map[string]bool{}
	for _, c := range sp.Calls {
		isCall[c] = true
	}
	isValue := map[string]bool{}
	for _, c := range sp.Values {
		isValue[c] = true
	}
	allowed := map[string]bool{}
	for _, f := range sp.In {
		allowed[f] = true
	}
	valueIn := map[string]bool{}
	for _, f := range sp.ValueIn {
		valueIn[f] = true
	}
	found := map[string][]string{} // function -> sink descriptions
	bad := map[string]bool{}       // function -> contains a sink it is not allowed to contain
	callOK := func(callee, in string) bool {
		at, ok := sp.CallAt[callee]
		return !ok || contains(at, in)
	}
	for fn := range ssautil.AllFunctions(w.prog) {
		if !w.inRepo(fn) || fn.Pkg == nil || fn.Pkg.Pkg.Name() == "main" {
			continue // (the command-line tool's own file handling is not what the sandbox flags confine)
		}
		if pos := fn.Pos(); pos.IsValid() && strings.HasSuffix(w.fset.Position(pos).Filename, "_test.go") {
			continue
		}
		key := funcKey(fn)
		if fn.Parent() != nil {
			key = funcKey(outermost(fn))
		}
		for _, b := range fn.Blocks {
			for _, in := range b.Instrs {
				// sink functions used as values (stored, passed) outside the listed places
				for _, op := range in.Operands(nil) {
					if op == nil || *op == nil {
						continue
					}
					if f, ok := (*op).(*ssa.Function); ok && isValue[funcKey(f)] {
						if ci, isCall := in.(ssa.CallInstruction); isCall && ci.Common().Value == ssa.Value(f) {
							// a direct call of the function the guarded field stands for bypasses the field's contract
							found[key] = append(found[key], "direct call of "+funcKey(f)+" (bypasses the guarded field) at "+x.pos(in.Pos()))
							bad[key] = true
						} else if !valueIn[key] {
							found[key] = append(found[key], "use of "+funcKey(f)+" as a value at "+x.pos(in.Pos()))
						}
					}
				}
				ci, ok := in.(ssa.CallInstruction)
				if !ok {
					continue
				}
				call := ci.Common()
				if call.IsInvoke() {
					continue
				}
				switch f := call.Value.(type) {
				case *ssa.Function:
					if isCall[funcKey(f)] {
						found[key] = append(found[key], "call of "+funcKey(f)+" at "+x.pos(in.Pos()))
						if !callOK(funcKey(f), key) {
							bad[key] = true
						}
					}
				case *ssa.UnOp:
					if fa, ok := f.X.(*ssa.FieldAddr); ok && f.Op == token.MUL {
						st0 := deref(fa.X.Type())
						if isField[typeKey(st0)+"."+fieldName(st0, fa.Field)] {
							found[key] = append(found[key], "call through field "+typeKey(st0)+"."+fieldName(st0, fa.Field)+" at "+x.pos(in.Pos()))
						}
					}
				}
			}
		}
	}
	// writers of the guard fields
	if len(sp.GuardFields) > 0 {
		guardT := map[string]bool{}
		for _, gf := range sp.GuardFields {
			guardT[gf[:strings.LastIndex(gf, ".")]] = true
		}
		wfound := map[string][]string{}
		for fn := range ssautil.AllFunctions(w.prog) {
			if !w.inRepo(fn) {
				continue
			}
			if pos := fn.Pos(); pos.IsValid() && strings.HasSuffix(w.fset.Position(pos).Filename, "_test.go") {
				continue
			}
			key := funcKey(outermost(fn))
			for _, b := range fn.Blocks {
				for _, in := range b.Instrs {
					switch v := in.(type) {
					case *ssa.FieldAddr:
						st0 := deref(v.X.Type())
						name := typeKey(st0) + "." + fieldName(st0, v.Field)
						if !contains(sp.GuardFields, name) {
							continue
						}
						for _, r := range *v.Referrers() {
							if u, ok := r.(*ssa.UnOp); ok && u.Op == token.MUL {
								continue // a read
							}
							if _, ok := r.(*ssa.DebugRef); ok {
								continue
							}
							wfound[key] = append(wfound[key], "write or address-taking of "+name+" at "+x.pos(r.Pos()))
						}
					case *ssa.Store:
						if guardT[typeKey(deref(v.Addr.Type()))] {
							if _, isAlloc := v.Addr.(*ssa.Alloc); !isAlloc {
								wfound[key] = append(wfound[key], "store of a whole "+typeKey(deref(v.Addr.Type()))+" at "+x.pos(v.Pos()))
							}
						}
					}
				}
			}
		}
		var wk []string
		for k := range wfound {
			wk = append(wk, k)
		}
		sort.Strings(wk)
		seenWriter := false
		for _, k := range wk {
			ok := contains(sp.Writers, k)
			if ok {
				seenWriter = true
				c := w.contracts[k]
				ok = c != nil && !c.Trusted
			}
			x.count["sink"]++
			x.obls = append(x.obls, &Obligation{Name: fmt.Sprintf("sinks.%s/writers/%s", sp.Name, k), Kind: "sink-site", Func: "sinks " + sp.Name,
				Desc:  fmt.Sprintf("%s writes the guard fields [%s]: only the listed writers (under contract) may", k, strings.Join(wfound[k], "; ")),
				Pos:   sp.Where, Goal: x.c.Bool(ok), Props: sp.Props, Clause: "sinks", ctx: x})
		}
		if !seenWriter {
			res.Err = "CHECK-ERROR: no listed writer writes the guard fields (vacuous)"
		}
	}
	var keys []string
	for k := range found {
		keys = append(keys, k)
	}
	sort.Strings(keys)
	outside := map[string]bool{}
	for _, f := range sp.Outside {
		outside[f] = true
	}
	for _, k := range keys {
		if outside[k] {
			x.ledger["sink site outside the sandbox's scope (acts for the tool, not for the AWK program): "+k] = true
			res.Ledger = append(res.Ledger, "sink site outside the sandbox's scope (acts for the tool, not for the AWK program): "+k)
			continue
		}
		ok := allowed[k] && !bad[k]
		if ok {
			// the function must be under a contract that serves the property
			c := w.contracts[k]
			ok = c != nil && !c.Trusted
			if ok {
				has := false
				for _, p := range sp.Props {
					if contains(c.Props, p) {
						has = true
					}
				}
				ok = has
			}
		}
		desc := fmt.Sprintf("%s contains %d sink site(s) [%s]: it must be listed in the sinks clause and be under a contract for %s", k, len(found[k]), strings.Join(found[k], "; "), strings.Join(sp.Props, ","))
		x.count["sink"]++
		ob := &Obligation{Name: fmt.Sprintf("sinks.%s/%s", sp.Name, k), Kind: "sink-site", Func: "sinks " + sp.Name, Desc: desc, Pos: sp.Where,
			Goal: x.c.Bool(ok), Props: sp.Props, Clause: "sinks", ctx: x}
		x.obls = append(x.obls, ob)
	}
	// listed functions that contain no sink any more are harmless; a list with no sink at all is vacuous
	if len(keys) == 0 {
		res.Err = "CHECK-ERROR: the sinks sweep found no sink site at all (vacuous)"
	}
	res.Obls = x.obls
	return
}

func outermost(fn *ssa.Function) *ssa.Function {
	for fn.Parent() != nil {
		fn = fn.Parent()
	}
	return fn
}
