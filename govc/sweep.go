package main

// Sink sweep (C12): every call that can open a file or start a process, anywhere in the module's
// non-test code, must lie in a function that the contract file lists (and that is under a contract
// for the property). The sweep is syntactic over the SSA of the whole module, rebuilt every run.

import (
	"fmt"
	"go/token"
	"sort"
	"strings"

	"golang.org/x/tools/go/ssa"
	"golang.org/x/tools/go/ssa/ssautil"
)

// SinkSpec: "sinks[Cnn] <name>: field <T.f> | call <callee> ... ; in <function> ..."
type SinkSpec struct {
	Name    string
	Fields  []string // struct fields holding sink functions: calls through them are sinks
	Calls   []string // callee keys (funcKey) that are sinks
	Values  []string // functions that may be mentioned as values only where listed in ValueIn
	ValueIn []string
	In      []string // functions allowed to contain sink calls
	Outside []string // functions with sinks that do not act for the AWK program (listed, reported)
	Props   []string
	Where   string
}

func parseSinkSpec(rest string, props []string, where string) (*SinkSpec, error) {
	i := strings.Index(rest, ":")
	if i < 0 {
		return nil, fmt.Errorf("expected: sinks <name>: field ... ; call ... ; in ...")
	}
	s := &SinkSpec{Name: strings.TrimSpace(rest[:i]), Props: props, Where: where}
	for _, part := range strings.Split(rest[i+1:], ";") {
		f := strings.Fields(part)
		if len(f) == 0 {
			continue
		}
		switch f[0] {
		case "field":
			s.Fields = append(s.Fields, f[1:]...)
		case "call":
			s.Calls = append(s.Calls, f[1:]...)
		case "value":
			s.Values = append(s.Values, f[1:]...)
		case "value-in":
			s.ValueIn = append(s.ValueIn, f[1:]...)
		case "in":
			s.In = append(s.In, f[1:]...)
		case "outside":
			// functions that open files for the tool itself, not on behalf of the AWK program
			s.Outside = append(s.Outside, f[1:]...)
		default:
			return nil, fmt.Errorf("unknown sinks part %q", f[0])
		}
	}
	return s, nil
}

func (w *World) verifySinks(sp *SinkSpec) (res *UnitResult) {
	res = &UnitResult{Name: "sinks " + sp.Name, Kind: "sweep"}
	fc := &FuncContract{Name: "sinks." + sp.Name, Props: sp.Props}
	x := NewExec(w, nil, fc)
	x.curProps = sp.Props
	res.Ctx = x
	isField := map[string]bool{}
	for _, f := range sp.Fields {
		isField[f] = true
	}
	isCall := map[string]bool{}
	for _, c := range sp.Calls {
		isCall[c] = true
	}
	isValue := map[string]bool{}
	for _, c := range sp.Values {
		isValue[c] = true
	}
	allowed := map[string]bool{}
	for _, f := range sp.In {
		allowed[f] = true
	}
	valueIn := map[string]bool{}
	for _, f := range sp.ValueIn {
		valueIn[f] = true
	}
	found := map[string][]string{} // function -> sink descriptions
	for fn := range ssautil.AllFunctions(w.prog) {
		if !w.inRepo(fn) || fn.Pkg == nil || fn.Pkg.Pkg.Name() == "main" {
			continue // (the command-line tool's own file handling is not what the sandbox flags confine)
		}
		if pos := fn.Pos(); pos.IsValid() && strings.HasSuffix(w.fset.Position(pos).Filename, "_test.go") {
			continue
		}
		key := funcKey(fn)
		if fn.Parent() != nil {
			key = funcKey(outermost(fn))
		}
		for _, b := range fn.Blocks {
			for _, in := range b.Instrs {
				// sink functions used as values (stored, passed) outside the listed places
				for _, op := range in.Operands(nil) {
					if op == nil || *op == nil {
						continue
					}
					if f, ok := (*op).(*ssa.Function); ok && isValue[funcKey(f)] {
						if ci, isCall := in.(ssa.CallInstruction); isCall && ci.Common().Value == ssa.Value(f) {
							found[key] = append(found[key], "call of "+funcKey(f)+" at "+x.pos(in.Pos()))
						} else if !valueIn[key] {
							found[key] = append(found[key], "use of "+funcKey(f)+" as a value at "+x.pos(in.Pos()))
						}
					}
				}
				ci, ok := in.(ssa.CallInstruction)
				if !ok {
					continue
				}
				call := ci.Common()
				if call.IsInvoke() {
					continue
				}
				switch f := call.Value.(type) {
				case *ssa.Function:
					if isCall[funcKey(f)] {
						found[key] = append(found[key], "call of "+funcKey(f)+" at "+x.pos(in.Pos()))
					}
				case *ssa.UnOp:
					if fa, ok := f.X.(*ssa.FieldAddr); ok && f.Op == token.MUL {
						st0 := deref(fa.X.Type())
						if isField[typeKey(st0)+"."+fieldName(st0, fa.Field)] {
							found[key] = append(found[key], "call through field "+typeKey(st0)+"."+fieldName(st0, fa.Field)+" at "+x.pos(in.Pos()))
						}
					}
				}
			}
		}
	}
	var keys []string
	for k := range found {
		keys = append(keys, k)
	}
	sort.Strings(keys)
	outside := map[string]bool{}
	for _, f := range sp.Outside {
		outside[f] = true
	}
	for _, k := range keys {
		if outside[k] {
			x.ledger["sink site outside the sandbox's scope (acts for the tool, not for the AWK program): "+k] = true
			res.Ledger = append(res.Ledger, "sink site outside the sandbox's scope (acts for the tool, not for the AWK program): "+k)
			continue
		}
		ok := allowed[k]
		if ok {
			// the function must be under a contract that serves the property
			c := w.contracts[k]
			ok = c != nil && !c.Trusted
			if ok {
				has := false
				for _, p := range sp.Props {
					if contains(c.Props, p) {
						has = true
					}
				}
				ok = has
			}
		}
		desc := fmt.Sprintf("%s contains %d sink site(s) [%s]: it must be listed in the sinks clause and be under a contract for %s", k, len(found[k]), strings.Join(found[k], "; "), strings.Join(sp.Props, ","))
		x.count["sink"]++
		ob := &Obligation{Name: fmt.Sprintf("sinks.%s/%s", sp.Name, k), Kind: "sink-site", Func: "sinks " + sp.Name, Desc: desc, Pos: sp.Where,
			Goal: x.c.Bool(ok), Props: sp.Props, Clause: "sinks", ctx: x}
		x.obls = append(x.obls, ob)
	}
	// listed functions that contain no sink any more are harmless; a list with no sink at all is vacuous
	if len(keys) == 0 {
		res.Err = "CHECK-ERROR: the sinks sweep found no sink site at all (vacuous)"
	}
	res.Obls = x.obls
	return
}

func outermost(fn *ssa.Function) *ssa.Function {
	for fn.Parent() != nil {
		fn = fn.Parent()
	}
	return fn
}
