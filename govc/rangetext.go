package main

import (
	"os"
	"regexp"
	"strings"

	"golang.org/x/tools/go/ssa"
)

var rangeOperandRe = regexp.MustCompile(`\brange\s+(.+?)\s*\{`)

// rangeOperandText: the source text of the operand of a range statement (spaces removed), read from the
// line of the file the loop stands on; "" when it cannot be read. Used only to check that an order-free
// declaration still speaks about the loop it was written for.
func rangeOperandText(w *World, r *ssa.Range) string {
	if !r.Pos().IsValid() {
		return ""
	}
	p := w.fset.Position(r.Pos())
	data, err := os.ReadFile(p.Filename)
	if err != nil {
		return ""
	}
	lines := strings.Split(string(data), "\n")
	if p.Line < 1 || p.Line > len(lines) {
		return ""
	}
	m := rangeOperandRe.FindStringSubmatch(lines[p.Line-1])
	if m == nil {
		return ""
	}
	// operand|first line of the body (both without blanks): several loops of one function may range
	// over the same map
	first := ""
	for k := p.Line; k < len(lines); k++ {
		t := strings.TrimSpace(lines[k])
		if t != "" && !strings.HasPrefix(t, "//") {
			first = strings.Join(strings.Fields(t), "")
			break
		}
	}
	return strings.ReplaceAll(m[1], " ", "") + "|" + first
}
