package main

import (
	"cmp"
	"sort"

	"golang.org/x/tools/go/ssa"
)

// Determinism of the generated queries. Fresh constants and named sub-terms are numbered in creation
// order, and the solvers' search depends on names and order: a query that z3 decides in half a second
// under one numbering can take it a minute under another. Every loop over a Go map that creates terms,
// hypotheses or generation numbers therefore walks the keys in a fixed order, so that the unchanged tree
// gives the same query text, byte for byte, on every run (tools/determinism.sh checks that).

func sortedKeys[K cmp.Ordered, V any](m map[K]V) []K {
	keys := make([]K, 0, len(m))
	for k := range m {
		keys = append(keys, k)
	}
	sort.Slice(keys, func(i, j int) bool { return keys[i] < keys[j] })
	return keys
}

// sortedAllocs: the cells of a map in source order (position, then function, then SSA name).
func sortedAllocs[V any](m map[*ssa.Alloc]V) []*ssa.Alloc {
	keys := make([]*ssa.Alloc, 0, len(m))
	for k := range m {
		keys = append(keys, k)
	}
	sort.Slice(keys, func(i, j int) bool { return allocLess(keys[i], keys[j]) })
	return keys
}

func allocLess(a, b *ssa.Alloc) bool {
	if a.Pos() != b.Pos() {
		return a.Pos() < b.Pos()
	}
	pa, pb := "", ""
	if a.Parent() != nil {
		pa = a.Parent().String()
	}
	if b.Parent() != nil {
		pb = b.Parent().String()
	}
	if pa != pb {
		return pa < pb
	}
	if a.Name() != b.Name() {
		return a.Name() < b.Name()
	}
	return a.Comment < b.Comment
}

// sortedBlocks: the blocks of a set in index order.
func sortedBlocks(m map[*ssa.BasicBlock]bool) []*ssa.BasicBlock {
	keys := make([]*ssa.BasicBlock, 0, len(m))
	for k := range m {
		keys = append(keys, k)
	}
	sort.Slice(keys, func(i, j int) bool {
		if keys[i].Parent() != keys[j].Parent() {
			return keys[i].Parent().String() < keys[j].Parent().String()
		}
		return keys[i].Index < keys[j].Index
	})
	return keys
}

// sortedFuncs: functions by full name, then position (function literals of one parent share neither).
func sortedFuncs[V any](m map[*ssa.Function]V) []*ssa.Function {
	keys := make([]*ssa.Function, 0, len(m))
	for k := range m {
		if k != nil {
			keys = append(keys, k)
		}
	}
	sortFuncs(keys)
	return keys
}

func sortFuncs(keys []*ssa.Function) {
	sort.SliceStable(keys, func(i, j int) bool {
		si, sj := keys[i].String(), keys[j].String()
		if si != sj {
			return si < sj
		}
		return keys[i].Pos() < keys[j].Pos()
	})
}
