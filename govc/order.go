package main

// Determinism sweep (C19, first half): "parsing the same source always gives the same verdict, the
// same error message and position, and the same compiled program".
//
//   ordered[Cnn] <name>: roots F ... ; no-globals pkg ... ; never-calls callee-prefix ... ;
//                        order-free F#k ...
//
// Over every repository function reachable from the roots (call graph: CHA+VTA, as for effects):
//   state    no package-level variable of the listed packages is written (nothing is carried from
//            one parse to the next) -- from the may-write summaries;
//   sources  no call of a listed callee (clock, random numbers, environment), no go statement, no
//            select;
//   order    every loop that ranges over a map (the only iteration whose order Go leaves unspecified)
//            is order-free. A loop is accepted automatically when its body has one of two shapes:
//            it only collects keys/values into a local slice that is sorted afterwards, or it only
//            updates/deletes map entries at its own key and writes locals that do not outlive the
//            iteration. Any other map-range loop must be named in the order-free list
//            (function#ordinal, ordinal counted in source order over the function and its closures);
//            that the named loops are order-free is the author's judgement, recorded as an
//            assumption; that the list is complete is checked on every run, and an entry that names
//            no loop is an error.

import (
	"fmt"
	"go/token"
	"go/types"
	"sort"
	"strings"

	"golang.org/x/tools/go/ssa"
)

type OrderSpec struct {
	Name       string
	Roots      []string
	NoGlobals  []string
	NeverCalls []string
	OrderFree  []string
	Props      []string
	Where      string
}

func parseOrderSpec(rest string, props []string, where string) (*OrderSpec, error) {
	i := strings.Index(rest, ":")
	if i < 0 {
		return nil, fmt.Errorf("expected: ordered <name>: roots ... ; ...")
	}
	s := &OrderSpec{Name: strings.TrimSpace(rest[:i]), Props: props, Where: where}
	for _, part := range strings.Split(rest[i+1:], ";") {
		f := strings.Fields(part)
		if len(f) == 0 {
			continue
		}
		switch f[0] {
		case "roots":
			s.Roots = append(s.Roots, f[1:]...)
		case "no-globals":
			s.NoGlobals = append(s.NoGlobals, f[1:]...)
		case "never-calls":
			s.NeverCalls = append(s.NeverCalls, f[1:]...)
		case "order-free":
			s.OrderFree = append(s.OrderFree, f[1:]...)
		default:
			return nil, fmt.Errorf("unknown ordered part %q", f[0])
		}
	}
	if len(s.Roots) == 0 {
		return nil, fmt.Errorf("ordered needs roots")
	}
	return s, nil
}

func (w *World) verifyOrder(sp *OrderSpec) (res *UnitResult) {
	res = &UnitResult{Name: "ordered " + sp.Name, Kind: "sweep"}
	fc := &FuncContract{Name: "ordered." + sp.Name, Props: sp.Props}
	x := NewExec(w, nil, fc)
	x.curProps = sp.Props
	res.Ctx = x
	add := func(name, desc string, ok bool) {
		x.count["order"]++
		x.obls = append(x.obls, &Obligation{Name: fmt.Sprintf("ordered.%s/%s", sp.Name, name), Kind: "order-sweep", Func: "ordered " + sp.Name,
			Desc: desc, Pos: sp.Where, Goal: x.c.Bool(ok), Props: sp.Props, Clause: "ordered", ctx: x})
	}
	w.computeEffects()
	reach := map[*ssa.Function]bool{}
	for _, r := range sp.Roots {
		fn := w.lookupFunc(r)
		if fn == nil {
			res.Err = "CHECK-ERROR: ordered root " + r + " not found"
			return
		}
		eff := w.funcEffects(fn)
		var bad []string
		for comp := range eff.prefixes {
			if strings.HasPrefix(comp, "G:") {
				for _, p := range sp.NoGlobals {
					if strings.HasPrefix(comp[2:], p+".") && w.isRepoGlobal(p, strings.SplitN(comp[2+len(p)+1:], ".", 2)[0]) {
						bad = append(bad, comp)
					}
				}
			}
		}
		sort.Strings(bad)
		desc := fmt.Sprintf("nothing reachable from %s writes a package-level variable of %s", r, strings.Join(sp.NoGlobals, ", "))
		if len(bad) > 0 {
			desc += "; MAY WRITE " + strings.Join(bad, ", ")
		}
		add(r+"/state", desc, len(bad) == 0 && !eff.all)
		var walk func(f *ssa.Function)
		walk = func(f *ssa.Function) {
			if reach[f] {
				return
			}
			reach[f] = true
			info := w.effInfos[f]
			if info == nil || info.fixed {
				return
			}
			for c := range info.callees {
				walk(c)
			}
		}
		walk(fn)
	}
	// sources of nondeterminism other than map order
	var srcIssues []string
	var outer []*ssa.Function
	seenOuter := map[*ssa.Function]bool{}
	for f := range reach {
		if !w.inRepo(f) || len(f.Blocks) == 0 {
			continue
		}
		if pos := f.Pos(); pos.IsValid() && strings.HasSuffix(w.fset.Position(pos).Filename, "_test.go") {
			continue
		}
		o := outermost(f)
		if !seenOuter[o] {
			seenOuter[o] = true
			outer = append(outer, o)
		}
		for _, b := range f.Blocks {
			for _, in := range b.Instrs {
				switch i := in.(type) {
				case *ssa.Go:
					srcIssues = append(srcIssues, "go statement in "+funcKey(f)+" at "+x.pos(i.Pos()))
				case *ssa.Select:
					srcIssues = append(srcIssues, "select in "+funcKey(f)+" at "+x.pos(i.Pos()))
				}
				if ci, ok := in.(ssa.CallInstruction); ok {
					if cf, ok := ci.Common().Value.(*ssa.Function); ok {
						k := funcKey(cf)
						for _, p := range sp.NeverCalls {
							if strings.HasPrefix(k, p) {
								srcIssues = append(srcIssues, "call of "+k+" in "+funcKey(f)+" at "+x.pos(in.Pos()))
							}
						}
					}
				}
			}
		}
	}
	sort.Strings(srcIssues)
	desc := "no clock, random-number, environment call, go statement or select in the repository functions reachable from the roots"
	if len(srcIssues) > 0 {
		desc += "; FOUND: " + strings.Join(srcIssues, "; ")
	}
	add("sources", desc, len(srcIssues) == 0)
	// map-range loops
	sort.Slice(outer, func(i, j int) bool { return funcKey(outer[i]) < funcKey(outer[j]) })
	// a declaration may carry the text of the map it judged (Resolve#3@r.varInfo): loops are numbered in
	// source order, so a loop added or removed above shifts the numbers, and without the text a
	// declaration would silently pass to another loop
	declared := map[string]bool{}
	guards := map[string]string{}
	for _, d := range sp.OrderFree {
		key, guard := d, ""
		if i := strings.Index(d, "@"); i >= 0 {
			rest := d[i+1:]
			cb := ""
			if j := strings.Index(rest, "<-"); j >= 0 {
				rest, cb = rest[:j], rest[j:]
			}
			key, guard = d[:i]+cb, rest
		}
		declared[key] = false
		if guard != "" {
			guards[key] = guard
		}
	}
	guardOK := func(key string, r *ssa.Range) (string, bool) {
		g, has := guards[key]
		if !has {
			return "", true
		}
		got := rangeOperandText(w, r)
		return got, got == g
	}
	nLoops := 0
	for _, o := range outer {
		type mr struct {
			r  *ssa.Range
			fn *ssa.Function
		}
		var loops []mr
		var collect func(f *ssa.Function)
		collect = func(f *ssa.Function) {
			for _, b := range f.Blocks {
				for _, in := range b.Instrs {
					if r, ok := in.(*ssa.Range); ok {
						if _, isMap := r.X.Type().Underlying().(*types.Map); isMap {
							loops = append(loops, mr{r, f})
						}
					}
				}
			}
			for _, af := range f.AnonFuncs {
				collect(af)
			}
		}
		collect(o)
		sort.Slice(loops, func(i, j int) bool { return loops[i].r.Pos() < loops[j].r.Pos() })
		for k, l := range loops {
			nLoops++
			id := fmt.Sprintf("%s#%d", funcKey(o), k+1)
			why := mapRangeShape(l.fn, l.r)
			where := x.pos(l.r.Pos())
			switch {
			case why == "":
				if _, isDecl := declared[id]; isDecl {
					declared[id] = true
				}
				add("order/"+id, "map-range loop at "+where+" is order-free by shape (collect-then-sort, or per-key updates only)", true)
			case len(dynCallsInLoop(l.fn, l.r)) > 0:
				// the body calls a function value once per entry: whether the loop is order-free depends on
				// what is passed in, so the judgement is made (and listed) per function that can arrive there
				var callees []string
				seenC := map[string]bool{}
				for _, site := range dynCallsInLoop(l.fn, l.r) {
					for _, cf := range w.siteCallees[site] {
						// (a closure made by a function the roots cannot reach cannot arrive here)
						if reach[cf] && reach[outermost(cf)] && !seenC[funcKey(cf)] {
							seenC[funcKey(cf)] = true
							callees = append(callees, funcKey(cf))
						}
					}
				}
				sort.Strings(callees)
				if len(callees) == 0 {
					add("order/"+id, "map-range loop at "+where+" calls a function value for which the call graph has no candidate", false)
				}
				for _, cf := range callees {
					pid := id + "<-" + cf
					if _, isDecl := declared[pid]; isDecl {
						declared[pid] = true
						if got, ok := guardOK(pid, l.r); !ok {
							add("order/"+pid, "the order-free declaration "+pid+" was made for a loop over "+guards[pid]+", but loop "+id+" at "+where+" ranges over "+got+": the declaration no longer fits the code", false)
							continue
						}
						l := "order sweep: map-range loop " + id + " (" + where + ") calling " + cf + " per entry is declared order-free (author's judgement)"
						res.Ledger = append(res.Ledger, l)
						x.ledger[l] = true
						add("order/"+pid, "map-range loop at "+where+" with callback "+cf+" is declared order-free", true)
					} else {
						add("order/"+pid, "map-range loop at "+where+" calls "+cf+" once per entry, in map order: this pair must be declared order-free (order-free "+pid+")", false)
					}
				}
			default:
				if _, isDecl := declared[id]; isDecl {
					declared[id] = true
					if got, ok := guardOK(id, l.r); !ok {
						add("order/"+id, "the order-free declaration "+id+" was made for a loop over "+guards[id]+", but the loop at "+where+" ranges over "+got+": the declaration no longer fits the code", false)
						continue
					}
					l := "order sweep: map-range loop " + id + " (" + where + ") is declared order-free (author's judgement; shape check says: " + why + ")"
					res.Ledger = append(res.Ledger, l)
					x.ledger[l] = true
					add("order/"+id, "map-range loop at "+where+" is declared order-free", true)
				} else {
					add("order/"+id, "map-range loop at "+where+" must be order-free: not accepted by shape ("+why+") and not declared", false)
				}
			}
		}
	}
	for d, used := range declared {
		if !used {
			res.Err = "CHECK-ERROR: order-free entry " + d + " names no map-range loop reachable from the roots"
			return
		}
	}
	if nLoops == 0 {
		res.Err = "CHECK-ERROR: the order sweep found no map-range loop (vacuous)"
	}
	res.Obls = x.obls
	return
}

// dynCallsInLoop: the calls of function values (not static functions, not builtins) in the body of
// the loop over r.
func dynCallsInLoop(fn *ssa.Function, r *ssa.Range) []ssa.CallInstruction {
	var next *ssa.Next
	for _, u := range *r.Referrers() {
		if n, ok := u.(*ssa.Next); ok {
			next = n
		}
	}
	if next == nil || len(next.Block().Succs) == 0 {
		return nil
	}
	body := next.Block().Succs[0]
	var out []ssa.CallInstruction
	for _, b := range fn.Blocks {
		if !body.Dominates(b) {
			continue
		}
		for _, in := range b.Instrs {
			if ci, ok := in.(ssa.CallInstruction); ok {
				switch ci.Common().Value.(type) {
				case *ssa.Function, *ssa.Builtin:
				default:
					if !ci.Common().IsInvoke() {
						out = append(out, ci)
					}
				}
			}
		}
	}
	return out
}

// mapRangeShape returns "" when the loop over r is order-free by shape, or the reason why not.
func mapRangeShape(fn *ssa.Function, r *ssa.Range) string {
	// the Next instruction and the body entry
	var next *ssa.Next
	for _, u := range *r.Referrers() {
		if n, ok := u.(*ssa.Next); ok {
			if next != nil {
				return "more than one Next for the range"
			}
			next = n
		}
	}
	if next == nil {
		return "no Next instruction"
	}
	head := next.Block()
	var okVal, keyVal, valVal ssa.Value
	for _, u := range *next.Referrers() {
		if e, ok := u.(*ssa.Extract); ok {
			switch e.Index {
			case 0:
				okVal = e
			case 1:
				keyVal = e
			case 2:
				valVal = e
			}
		}
	}
	ifi, ok := head.Instrs[len(head.Instrs)-1].(*ssa.If)
	if !ok || okVal == nil || ifi.Cond != okVal {
		return "loop head does not branch on the range's ok flag"
	}
	body := head.Succs[0]
	region := map[*ssa.BasicBlock]bool{}
	for _, b := range fn.Blocks {
		if body.Dominates(b) {
			region[b] = true
		}
	}
	inRegion := func(in ssa.Instruction) bool { return region[in.Block()] }
	// locals whose every reference lies inside the region (iteration-local), key cells
	localOnly := func(a *ssa.Alloc) bool {
		for _, u := range *a.Referrers() {
			if !inRegion(u) {
				return false
			}
		}
		return true
	}
	keyCell := map[*ssa.Alloc]bool{}
	isKey := func(v ssa.Value) bool {
		if v == keyVal && keyVal != nil {
			return true
		}
		if u, ok := v.(*ssa.UnOp); ok && u.Op == token.MUL {
			if a, ok := u.X.(*ssa.Alloc); ok && keyCell[a] {
				return true
			}
		}
		return false
	}
	for b := range region {
		for _, in := range b.Instrs {
			if st, ok := in.(*ssa.Store); ok && keyVal != nil && st.Val == keyVal {
				if a, ok := st.Addr.(*ssa.Alloc); ok {
					// a key cell must only ever hold this loop's key
					only := true
					for _, u := range *a.Referrers() {
						if s2, ok := u.(*ssa.Store); ok && s2.Addr == ssa.Value(a) && s2.Val != keyVal {
							only = false
						}
					}
					if only {
						keyCell[a] = true
					}
				}
			}
		}
	}
	_ = valVal
	appendTargets := map[*ssa.Alloc]bool{}
	for b := range region {
		for _, in := range b.Instrs {
			switch i := in.(type) {
			case *ssa.DebugRef, *ssa.Jump, *ssa.If, *ssa.UnOp, *ssa.BinOp, *ssa.Extract, *ssa.Lookup, *ssa.Index, *ssa.IndexAddr,
				*ssa.FieldAddr, *ssa.Field, *ssa.Phi, *ssa.MakeMap, *ssa.MakeSlice, *ssa.Convert, *ssa.ChangeType, *ssa.Slice, *ssa.Alloc,
				*ssa.MakeInterface, *ssa.TypeAssert, *ssa.ChangeInterface:
				// reads and fresh values
			case *ssa.Next:
				if i != next {
					return "nested range loop"
				}
			case *ssa.Range:
				return "nested range loop"
			case *ssa.Store:
				a, ok := i.Addr.(*ssa.Alloc)
				if ia, isIdx := i.Addr.(*ssa.IndexAddr); isIdx && !ok {
					a, ok = ia.X.(*ssa.Alloc) // element of a local array (the argument list of a variadic call)
				}
				if !ok {
					return fmt.Sprintf("stores to memory other than a local (%s: %T)", i.Addr, i.Addr)
				}
				if localOnly(a) {
					continue
				}
				// a local that outlives the iteration: only as the target of append (checked below)
				if c, ok := i.Val.(*ssa.Call); ok {
					if bi, ok := c.Call.Value.(*ssa.Builtin); ok && bi.Name() == "append" {
						if ld, ok := c.Call.Args[0].(*ssa.UnOp); ok && ld.X == ssa.Value(a) {
							appendTargets[a] = true
							continue
						}
					}
				}
				return "assigns a variable that outlives the iteration"
			case *ssa.MapUpdate:
				if !isKey(i.Key) {
					return "updates a map at a key other than the loop's own key"
				}
			case *ssa.Call:
				bi, ok := i.Call.Value.(*ssa.Builtin)
				if !ok {
					return "calls " + i.Call.String()
				}
				switch bi.Name() {
				case "append", "len", "cap":
				case "delete":
					if !isKey(i.Call.Args[1]) {
						return "deletes a key other than the loop's own key"
					}
				default:
					return "calls builtin " + bi.Name()
				}
			default:
				return fmt.Sprintf("contains %T", in)
			}
		}
	}
	// every append target must be sorted somewhere after being filled
	for a := range appendTargets {
		sorted := false
		for _, u := range *a.Referrers() {
			ld, ok := u.(*ssa.UnOp)
			if !ok || inRegion(ld) {
				continue
			}
			for _, u2 := range *ld.Referrers() {
				if c, ok := u2.(*ssa.Call); ok {
					if f, ok := c.Call.Value.(*ssa.Function); ok {
						k := funcKey(f)
						if k == "sort.Strings" || k == "sort.Ints" || k == "sort.Float64s" || strings.HasPrefix(k, "slices.Sort") {
							sorted = true
						}
					}
				}
			}
		}
		if !sorted {
			return "collects into a slice that is not sorted afterwards"
		}
	}
	return ""
}
