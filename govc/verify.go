package main

import (
	"os"
	"runtime/debug"
	"fmt"
	"go/types"
	"strings"

	"golang.org/x/tools/go/ssa"
)

type UnitResult struct {
	Name    string
	Kind    string // func | lemma
	Obls    []*Obligation
	Err     string // unsupported construct etc.
	Ledger  []string
	Loops   []string
	Ctx     *Exec
	Contract *FuncContract
}

// verifyFunc generates the obligations of one function under contract.
func (w *World) verifyFunc(fc *FuncContract, props []string) (res *UnitResult) {
	res = &UnitResult{Name: fc.Name, Kind: "func", Contract: fc}
	fn := w.lookupFunc(fc.Name)
	if fn == nil {
		res.Err = "CHECK-ERROR: contract target " + fc.Name + " does not exist (" + fc.Where + ")"
		return
	}
	if len(fn.Blocks) == 0 {
		res.Err = "CHECK-ERROR: contract target " + fc.Name + " has no body"
		return
	}
	x := NewExec(w, fn, fc)
	x.curProps = fc.Props
	res.Ctx = x
	defer func() {
		if r := recover(); r != nil {
			if u, ok := r.(unsupportedErr); ok {
				res.Err = "UNSUPPORTED: " + u.msg
				res.Obls = x.obls
				if os.Getenv("GOVC_DEBUG") != "" {
					fmt.Fprintf(os.Stderr, "%s\n%s\n", u.msg, debug.Stack())
				}
				return
			}
			if f, ok := r.(fatalUnsupported); ok {
				res.Err = "REFUSED (outside the sound subset): " + f.msg
				res.Obls = nil
				return
			}
			panic(r)
		}
	}()
	c := x.c
	st := &State{reach: c.True(), cells: map[*ssa.Alloc]Value{}, heap: map[string]*Term{}, ghost: map[string]*Term{}, tags: map[string]int{}}
	st.allocTop = c.Const("allocTop0", SInt)
	x.hyps = append(x.hyps, c.Le(c.Int(1), st.allocTop), c.Le(st.allocTop, c.IntBig(maxAllocBg)))
	var params []Value
	for _, p := range fn.Params {
		v := x.freshValue("p_"+p.Name(), p.Type())
		if fv, ok := v.(FuncV); ok {
			fv.Param = p
			v = fv
		}
		x.assumeRanges(st, v, p.Type())
		params = append(params, v)
		x.regs[p] = v
	}
	if fn.Signature.Recv() != nil && len(params) > 0 {
		if pv, ok := params[0].(PtrV); ok && pv.Kind == PRef {
			x.hyps = append(x.hyps, c.Neq(pv.Base, c.Int(0)))
			x.ranged[c.Neq(pv.Base, c.Int(0))] = true
			x.ledger["receiver of "+fc.Name+" assumed non-nil"] = true
		}
	}
	var freevars []Value
	for _, fv := range fn.FreeVars {
		// closure verified stand-alone: captured variables are opaque boxes
		v := x.freshValue("fv_"+fv.Name(), fv.Type())
		x.assumeRanges(st, v, fv.Type())
		freevars = append(freevars, v)
		x.regs[fv] = v
	}
	for _, g := range fc.Ghosts {
		tv := x.eval(g.Init, x.envFor(fn, st, st, nil))
		st.ghost[g.Name] = x.scalar(tv.V)
	}
	x.entry = st.clone()
	// requires: assumed, with a vacuity guard
	env := x.envFor(fn, st, x.entry, nil)
	var reqs []*Term
	for _, cl := range fc.Requires {
		t := x.evalBool(cl.Expr, env)
		reqs = append(reqs, t)
		x.assume(st, t)
	}
	if len(reqs) > 0 {
		x.cover(st, "precondition is satisfiable", fn.Pos(), c.True(), fc.Props)
	}
	rets := x.runBody(fn, st, params, freevars, fc)
	for _, cls := range fc.LoopStep {
		for _, cl := range cls {
			if x.stepApplied[cl.Text] == 0 {
				res.Err = "CHECK-ERROR: step clause applies on no back edge (vacuous): " + cl.Text
			}
		}
	}
	for _, r := range rets {
		x.curBlock = r.blk
		envR := x.envFor(fn, r.st, x.entry, r.results)
		envR.pos = r.pos
		for _, cl := range fc.Ensures {
			if cl.Def {
				x.ledger["definitional postcondition of "+fc.Name+" (names its result by spec functions; not proved): "+cl.Text] = true
				continue
			}
			t, okEval := x.evalBoolLenient(cl.Expr, envR)
			if !okEval {
				// the clause mentions a local that does not exist yet on the way to this return: it can
				// only hold there vacuously, so its antecedent must be false on this path
				top := stripParen(cl.Expr)
				if top.Op == "binary" && top.Name == "==>" {
					// the conjuncts of the antecedent that can be read here: one of them must be false
					var parts []*Term
					var split func(e *CE)
					split = func(e *CE) {
						e = stripParen(e)
						if e.Op == "binary" && e.Name == "&&" {
							split(e.Args[0])
							split(e.Args[1])
							return
						}
						if a, okA := x.evalBoolLenient(e, envR); okA {
							parts = append(parts, a)
						}
					}
					split(top.Args[0])
					if len(parts) > 0 {
						x.oblige(r.st, "ensures", "postcondition (it names a local not yet declared on this path, so what can be read of its antecedent must be false here): "+cl.Text+r.via, r.pos, x.c.Not(x.c.And(parts...)), cl.Props, cl.Text)
						continue
					}
				}
				t = x.evalBool(cl.Expr, envR) // not an implication: report the evaluation error
			}
			x.oblige(r.st, "ensures", "postcondition: "+cl.Text+r.via, r.pos, t, cl.Props, cl.Text)
		}
		if fc.ModifiesGiven {
			if g, desc := x.frameConj(r.st, fc); g != nil {
				x.oblige(r.st, "frame", "unchanged outside the modifies clause: "+desc+r.via, r.pos, g, fc.ModProps, "modifies")
			}
		}
	}
	if len(rets) > 0 {
		var rs []*Term
		for k, r := range rets {
			if k < 6 {
				rs = append(rs, r.st.reach)
			}
		}
		x.coverAny("some return is reachable", fn, c.Or(rs...), fc.Props)
	}
	res.Obls = x.obls
	for k := range x.ledger {
		if !strings.HasPrefix(k, "spec:") && !strings.HasPrefix(k, "axiom:") {
			res.Ledger = append(res.Ledger, k)
		}
	}
	for _, li := range findLoops(fn) {
		res.Loops = append(res.Loops, fmt.Sprintf("loop %d at %s (%d invariants)", li.ordinal, x.pos(li.minPos), len(fc.LoopInv[li.ordinal])))
	}
	sortStrings(res.Ledger)
	sortStrings(res.Loops)
	return
}

func (x *Exec) coverAny(desc string, fn *ssa.Function, cond *Term, props []string) {
	st := &State{reach: x.c.True()}
	x.cover(st, desc, fn.Pos(), cond, props)
}

// verifyLemma: a closed formula over spec functions, proved from the axioms.
func (w *World) verifyLemma(l *Lemma) (res *UnitResult) {
	res = &UnitResult{Name: "lemma " + l.Name, Kind: "lemma"}
	fc := &FuncContract{Name: "lemma." + l.Name, Ints: l.Ints, Props: l.Props}
	x := NewExec(w, nil, fc)
	x.curProps = l.Props
	res.Ctx = x
	defer func() {
		if r := recover(); r != nil {
			if u, ok := r.(unsupportedErr); ok {
				res.Err = "UNSUPPORTED: " + u.msg
				return
			}
			panic(r)
		}
	}()
	st := x.axiomState()
	x.entry = st
	env := &Env{x: x, st: st, old: st, names: map[string]TV{}}
	// a top-level universal quantifier is proved for arbitrary fresh constants
	body := l.Expr
	for body.Op == "paren" {
		body = body.Args[0]
	}
	if body.Op == "forall" {
		for _, v := range body.Vars {
			vt := w.resolveType(v.Type, nil)
			var val Value
			switch vt.Underlying().(type) {
			case *types.Slice:
				bv, _ := x.boundValue(v.Name, vt)
				sq := bv.(SeqV)
				ns := SeqV{C: map[string]*Term{}, Off: x.c.Fresh(v.Name+"_off", SInt), Len: x.c.Fresh(v.Name+"_len", SInt)}
				for _, k := range sortedKeys(sq.C) {
					a := sq.C[k]
					ns.C[k] = x.c.Fresh(v.Name+k, a.sort)
				}
				x.hyps = append(x.hyps, x.c.Le(x.c.Int(0), ns.Len), x.c.Le(x.c.Int(0), ns.Off))
				val = ns
			default:
				val = x.freshValue("L_"+v.Name, vt)
				x.assumeRanges(st, val, vt)
			}
			env = env.bind(v.Name, TV{val, vt})
		}
		body = body.Args[0]
	}
	t := x.evalBool(body, env)
	ob := &Obligation{Name: "lemma/" + l.Name, Kind: "lemma", Func: "lemma " + l.Name, Desc: l.Text, Pos: l.Where, Goal: t, NHyps: len(x.hyps), Props: l.Props, Clause: l.Text, ctx: x}
	x.obls = append(x.obls, ob)
	res.Obls = x.obls
	return
}

// verifyClassified: the field list given in the contract file equals the struct's fields.
func (w *World) verifyClassified(cl *Classified) (res *UnitResult) {
	res = &UnitResult{Name: "classified " + cl.Type, Kind: "classified"}
	fc := &FuncContract{Name: "classified." + cl.Type, Props: cl.Props}
	x := NewExec(w, nil, fc)
	x.curProps = cl.Props
	res.Ctx = x
	defer func() {
		if r := recover(); r != nil {
			if u, ok := r.(unsupportedErr); ok {
				res.Err = "UNSUPPORTED: " + u.msg
				return
			}
			panic(r)
		}
	}()
	t := w.resolveType(cl.Type, nil)
	st, ok := t.Underlying().(*types.Struct)
	if !ok {
		res.Err = "CHECK-ERROR: " + cl.Type + " is not a struct"
		return
	}
	have := map[string]bool{}
	for i := 0; i < st.NumFields(); i++ {
		have[st.Field(i).Name()] = true
	}
	listed := map[string]bool{}
	var extra, missing []string
	for _, f := range cl.Fields {
		listed[f] = true
		if !have[f] {
			extra = append(extra, f)
		}
	}
	for i := 0; i < st.NumFields(); i++ {
		if !listed[st.Field(i).Name()] {
			missing = append(missing, st.Field(i).Name())
		}
	}
	desc := fmt.Sprintf("every field of %s is classified (%d fields)", cl.Type, st.NumFields())
	if len(missing) > 0 {
		desc += "; NOT classified: " + strings.Join(missing, ", ")
	}
	if len(extra) > 0 {
		desc += "; listed but not a field: " + strings.Join(extra, ", ")
	}
	okAll := len(missing) == 0 && len(extra) == 0
	ob := &Obligation{Name: "classified/" + cl.Type, Kind: "classification", Func: "classified " + cl.Type, Desc: desc, Pos: cl.Where,
		Goal: x.c.Bool(okAll), NHyps: 0, Props: cl.Props, Clause: "classified", ctx: x}
	x.obls = append(x.obls, ob)
	res.Obls = x.obls
	return
}

var _ = types.Typ

// verifyAxioms: a consistency probe of the axioms of /verif/spec, run with every check. All axioms are
// instantiated together with ground applications of every spec function at deliberately awkward arguments
// (fresh sequences of length -1, 0 and 1, integers -1, 0, 1): the set must be satisfiable. An axiom
// that is false at an ill-formed argument (a quantifier that forgot "len(s) >= 0") would otherwise make
// every obligation that uses it provable; such a set is reported as a check error (vacuity), never as a
// pass. (A probe, not a proof of consistency.)
func (w *World) verifyAxioms(props []string) (res *UnitResult) {
	res = &UnitResult{Name: "axioms", Kind: "lemma"}
	fc := &FuncContract{Name: "axioms", Props: props}
	x := NewExec(w, nil, fc)
	x.curProps = props
	res.Ctx = x
	defer func() {
		if r := recover(); r != nil {
			if _, ok := r.(unsupportedErr); ok {
				res.Obls = x.obls // a probe that cannot be built is skipped, the axioms still load in the real units
				return
			}
			panic(r)
		}
	}()
	st := x.axiomState()
	x.entry = st
	c := x.c
	var names []string
	for n := range w.cs.specs {
		names = append(names, n)
	}
	sortStrings(names)
	for _, n := range names {
		sf := w.cs.specs[n]
		for _, probe := range []int64{-1, 0, 1} {
			func() {
				defer func() {
					if r := recover(); r != nil {
						if _, ok := r.(unsupportedErr); !ok {
							panic(r)
						}
					}
				}()
				env := &Env{x: x, st: st, old: st, names: map[string]TV{}}
				var args []TV
				for i, p := range sf.Params {
					pt := w.resolveType(p.Type, nil)
					v := x.freshValue(fmt.Sprintf("probe_%s_%d", n, i), pt)
					switch u := pt.Underlying().(type) {
					case *types.Slice:
						bv, _ := x.boundValue("pb", pt)
						sq := bv.(SeqV)
						for _, k := range sortedKeys(sq.C) {
							sq.C[k] = c.Fresh("probe_c", sq.C[k].sort)
						}
						sq.Off, sq.Len = c.Int(0), c.Int(probe)
						v = sq
					case *types.Basic:
						if u.Info()&types.IsString != 0 {
							v = SeqV{C: map[string]*Term{"": c.Fresh("probe_s", ArrSort(SInt, SInt))}, Off: c.Int(0), Len: c.Int(probe)}
						} else if u.Info()&types.IsInteger != 0 {
							v = Sc{c.Int(probe)}
						}
					}
					args = append(args, TV{v, pt})
				}
				r := x.applySpec(sf, args, env)
				for _, t := range x.flattenAny(r) {
					x.hyps = append(x.hyps, c.mk("=", SBool, t, t))
				}
			}()
		}
	}
	x.cover(st, "the axioms of /verif/spec are satisfiable together with applications of every spec function at lengths and integers -1, 0, 1", 0, c.True(), props)
	res.Obls = x.obls
	return
}
