package main

// boundedResult: outcome of a bounded stand-in check (labelled bounded, never counted as proved).
type boundedResult struct {
	Name     string
	Bound    string
	Cases    int
	Failures []string
	Err      string
}
