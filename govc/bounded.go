package main

// Bounded stand-ins. Where a function cannot be brought within the verifier's reach, a bounded check of
// the real code with a stated bound may stand in. It is labelled bounded in the output and in the
// evidence and is never counted among the discharged obligations.
//
//   bounded[Cnn] <name>: pkg <dir> ; file <test file> ; run <TestName> ; bound <free text>
//
// The test file is injected into /repo/<dir> with `go test -overlay` (nothing is written to the
// repository) and run once. It reports
//   BOUNDED cases=<n> failures=<m>
//   BOUNDED-FAIL[class=<label>]: <case and what differs>
// A failure line is a violation unless known_findings.json lists its class for this stand-in.

import (
	"bytes"
	"context"
	"encoding/json"
	"fmt"
	"os"
	"os/exec"
	"path/filepath"
	"regexp"
	"strconv"
	"strings"
	"time"
)

type boundedResult struct {
	Name     string
	Bound    string
	Cases    int
	Failures []string
	Err      string
	Seconds  float64
}

type BoundedSpec struct {
	Name  string
	Pkg   string
	File  string
	Run   string
	Bound string
	Props []string
	Where string
}

func parseBoundedSpec(rest string, props []string, where string) (*BoundedSpec, error) {
	i := strings.Index(rest, ":")
	if i < 0 {
		return nil, fmt.Errorf("expected: bounded <name>: pkg ... ; file ... ; run ... ; bound ...")
	}
	s := &BoundedSpec{Name: strings.TrimSpace(rest[:i]), Props: props, Where: where}
	for _, part := range strings.Split(rest[i+1:], ";") {
		f := strings.Fields(part)
		if len(f) < 2 {
			continue
		}
		switch f[0] {
		case "pkg":
			s.Pkg = f[1]
		case "file":
			s.File = f[1]
		case "run":
			s.Run = f[1]
		case "bound":
			s.Bound = strings.TrimSpace(strings.TrimPrefix(strings.TrimSpace(part), "bound"))
		default:
			return nil, fmt.Errorf("unknown bounded part %q", f[0])
		}
	}
	if s.Pkg == "" || s.File == "" || s.Run == "" || s.Bound == "" {
		return nil, fmt.Errorf("bounded needs pkg, file, run and bound")
	}
	return s, nil
}

// currentTier ("quick" or "thorough") is handed to the stand-ins as GOVC_TIER: thorough widens the bound.
var currentTier = "quick"

var boundedCasesRe =regexp.MustCompile(`BOUNDED cases=(\d+) failures=(\d+)`)

func runBounded(sp *BoundedSpec) (res boundedResult) {
	res = boundedResult{Name: sp.Name, Bound: sp.Bound}
	t0 := time.Now()
	defer func() { res.Seconds = time.Since(t0).Seconds() }()
	if _, err := os.Stat(sp.File); err != nil {
		res.Err = "test file missing: " + sp.File
		return res
	}
	dir, err := os.MkdirTemp("", "govc-bounded-")
	if err != nil {
		res.Err = err.Error()
		return res
	}
	defer os.RemoveAll(dir)
	target := filepath.Join(repoRoot, sp.Pkg, "zz_govc_bounded_"+sanitize(sp.Name)+"_test.go")
	ov, _ := json.Marshal(map[string]map[string]string{"Replace": {target: sp.File}})
	ovFile := filepath.Join(dir, "overlay.json")
	if err := os.WriteFile(ovFile, ov, 0o644); err != nil {
		res.Err = err.Error()
		return res
	}
	ctx, cancel := context.WithTimeout(context.Background(), 10*time.Minute)
	defer cancel()
	cmd := exec.CommandContext(ctx, "go", "test", "-overlay", ovFile, "-vet=off", "-count=1", "-timeout", "540s", "-v", "-run", "^"+sp.Run+"$", ".")
	cmd.Dir = filepath.Join(repoRoot, sp.Pkg)
	cmd.Env = append(os.Environ(), "GOFLAGS=-mod=mod", "GOPROXY=off", "GOSUMDB=off", "GOTOOLCHAIN=local", "GOVC_TIER="+currentTier)
	var out bytes.Buffer
	cmd.Stdout = &out
	cmd.Stderr = &out
	runErr := cmd.Run()
	text := out.String()
	m := boundedCasesRe.FindStringSubmatch(text)
	if m == nil {
		res.Err = fmt.Sprintf("the stand-in did not report its case count (%v): %s", runErr, tail(text, 600))
		return res
	}
	res.Cases, _ = strconv.Atoi(m[1])
	for _, l := range strings.Split(text, "\n") {
		if strings.HasPrefix(l, "BOUNDED-FAIL") {
			res.Failures = append(res.Failures, l)
		}
	}
	nf, _ := strconv.Atoi(m[2])
	if nf != len(res.Failures) && nf > len(res.Failures) {
		res.Failures = append(res.Failures, fmt.Sprintf("BOUNDED-FAIL[class=unlisted]: %d further failing cases not printed", nf-len(res.Failures)))
	}
	if res.Cases == 0 {
		res.Err = "the stand-in ran no case (vacuous)"
	}
	return res
}

func tail(s string, n int) string {
	if len(s) > n {
		return s[len(s)-n:]
	}
	return s
}
