package main

import (
	"go/constant"
	"go/token"
	"go/types"
	"sort"

	"golang.org/x/tools/go/ssa"
)

// Private slice variables (used under fresh-frames only). A local variable of slice type is private
// when every value stored in it is nil or comes straight from make in the same function, and when what
// is loaded from it is only indexed, measured (len, cap) or compared with nil: no element address, and
// no slice value, ever reaches a call, the heap, another variable, a closure or the caller. The backing
// array it refers to at any moment was then allocated by this function and is reachable from nowhere
// else, so a callee cannot write it: across a call its elements keep their values.

func privateSliceCells(fn *ssa.Function) []*ssa.Alloc {
	var out []*ssa.Alloc
	for _, b := range fn.Blocks {
		for _, in := range b.Instrs {
			al, ok := in.(*ssa.Alloc)
			if !ok || al.Heap {
				continue
			}
			if _, isSlice := deref(al.Type()).Underlying().(*types.Slice); !isSlice {
				continue
			}
			if cellIsPrivateSlice(al) {
				out = append(out, al)
			}
		}
	}
	return out
}

func isNilConst(v ssa.Value) bool {
	c, ok := v.(*ssa.Const)
	return ok && c.Value == nil
}

func cellIsPrivateSlice(al *ssa.Alloc) bool {
	if al.Referrers() == nil {
		return false
	}
	for _, ref := range *al.Referrers() {
		switch r := ref.(type) {
		case *ssa.Store:
			if r.Addr != ssa.Value(al) {
				return false // the address of the variable is stored somewhere
			}
			switch v := r.Val.(type) {
			case *ssa.MakeSlice:
				// the made slice goes nowhere else
				if v.Referrers() == nil {
					return false
				}
				for _, mr := range *v.Referrers() {
					if st, ok := mr.(*ssa.Store); ok && st.Addr == ssa.Value(al) {
						continue
					}
					if _, ok := mr.(*ssa.DebugRef); ok {
						continue
					}
					return false
				}
			case *ssa.Const:
				if !isNilConst(v) {
					return false
				}
			default:
				return false
			}
		case *ssa.UnOp:
			if r.Op != token.MUL || r.X != ssa.Value(al) {
				return false
			}
			if !loadedSliceStaysPrivate(r) {
				return false
			}
		case *ssa.DebugRef:
		default:
			return false // address taken (closure capture, call argument, ...)
		}
	}
	return true
}

func loadedSliceStaysPrivate(ld *ssa.UnOp) bool {
	if ld.Referrers() == nil {
		return true
	}
	for _, ref := range *ld.Referrers() {
		switch r := ref.(type) {
		case *ssa.IndexAddr:
			if r.X != ssa.Value(ld) {
				return false
			}
			// the element address is only read or written through
			if r.Referrers() != nil {
				for _, er := range *r.Referrers() {
					switch e := er.(type) {
					case *ssa.Store:
						if e.Addr != ssa.Value(r) {
							return false
						}
					case *ssa.UnOp:
						if e.Op != token.MUL {
							return false
						}
					case *ssa.DebugRef:
					default:
						return false
					}
				}
			}
		case *ssa.Call:
			b, ok := r.Call.Value.(*ssa.Builtin)
			if !ok || (b.Name() != "len" && b.Name() != "cap") {
				return false
			}
		case *ssa.BinOp:
			if (r.Op != token.EQL && r.Op != token.NEQ) || !(isNilConst(r.X) || isNilConst(r.Y)) {
				return false
			}
		case *ssa.DebugRef:
		default:
			return false
		}
	}
	return true
}

var _ = constant.MakeBool

// keepPrivateSlices: after the effects of a call have been applied to st, the backing arrays that the
// private slice variables of the function under verification refer to have the elements they had before.
func (x *Exec) keepPrivateSlices(st *State, before map[string]*Term) {
	x.keepPrivateBoxes(st, before)
	if x.privCells == nil {
		x.privCells = privateSliceCells(x.fn)
		if len(x.privCells) > 0 {
			var names []string
			for _, al := range x.privCells {
				names = append(names, al.Comment)
			}
			sort.Strings(names)
			x.ledger["fresh-frames: private slice variables (made here, only indexed and measured): elements kept across calls: "+join(names, ", ")] = true
		}
		if x.privCells == nil {
			x.privCells = []*ssa.Alloc{}
		}
	}
	c := x.c
	for _, al := range x.privCells {
		v, ok := st.cells[al].(SliceV)
		if !ok {
			continue
		}
		et := deref(al.Type()).Underlying().(*types.Slice).Elem()
		for _, l := range leavesOf(et) {
			k := "E:" + typeKey(et) + l.suffix
			old, had := before[k]
			now, has := st.heap[k]
			if !had || !has || old == now {
				continue
			}
			x.assume(st, c.Eq(c.Select(now, v.Arr), c.Select(old, v.Arr)))
		}
	}
}

func join(ss []string, sep string) string {
	out := ""
	for i, s := range ss {
		if i > 0 {
			out += sep
		}
		out += s
	}
	return out
}

// Private boxes (under fresh-frames): a local variable that lives on the heap only because function
// literals of the same function capture it. It is private when it is only read and written directly, or
// captured by function literals that are themselves only kept in a local variable and called from there
// (never passed, stored elsewhere or returned), and which use the captured variable only by reading and
// writing it. No callee can then reach the variable: across a call it keeps its value.
func privateBoxes(fn *ssa.Function) []*ssa.Alloc {
	var out []*ssa.Alloc
	for _, b := range fn.Blocks {
		for _, in := range b.Instrs {
			al, ok := in.(*ssa.Alloc)
			if !ok || !al.Heap || al.Comment == "" || al.Referrers() == nil {
				continue
			}
			switch deref(al.Type()).Underlying().(type) {
			case *types.Struct, *types.Array:
				continue // scalars, strings, slices and pointers only
			}
			if boxIsPrivate(al) {
				out = append(out, al)
			}
		}
	}
	return out
}

func boxIsPrivate(al *ssa.Alloc) bool {
	for _, ref := range *al.Referrers() {
		switch r := ref.(type) {
		case *ssa.Store:
			if r.Addr != ssa.Value(al) {
				return false
			}
		case *ssa.UnOp:
			if r.Op != token.MUL || r.X != ssa.Value(al) {
				return false
			}
		case *ssa.MakeClosure:
			if !closureStaysLocal(r) {
				return false
			}
			lit, ok := r.Fn.(*ssa.Function)
			if !ok {
				return false
			}
			for k, bnd := range r.Bindings {
				if bnd != ssa.Value(al) {
					continue
				}
				if k >= len(lit.FreeVars) || !freeVarOnlyReadWritten(lit.FreeVars[k]) {
					return false
				}
			}
		case *ssa.DebugRef:
		default:
			return false
		}
	}
	return true
}

// closureStaysLocal: the function literal is stored in one local variable only, and what is loaded from
// that variable is only called.
func closureStaysLocal(mc *ssa.MakeClosure) bool {
	if mc.Referrers() == nil {
		return true
	}
	for _, ref := range *mc.Referrers() {
		switch r := ref.(type) {
		case *ssa.Store:
			cell, ok := r.Addr.(*ssa.Alloc)
			if !ok || cell.Heap || r.Val != ssa.Value(mc) || cell.Referrers() == nil {
				return false
			}
			for _, cr := range *cell.Referrers() {
				switch c := cr.(type) {
				case *ssa.Store:
					if c.Addr != ssa.Value(cell) {
						return false
					}
				case *ssa.UnOp:
					if c.Op != token.MUL || c.Referrers() == nil {
						return false
					}
					for _, lr := range *c.Referrers() {
						switch l := lr.(type) {
						case *ssa.Call:
							if l.Call.Value != ssa.Value(c) {
								return false // passed as an argument
							}
							for _, a := range l.Call.Args {
								if a == ssa.Value(c) {
									return false
								}
							}
						case *ssa.DebugRef:
						default:
							return false
						}
					}
				case *ssa.DebugRef:
				default:
					return false
				}
			}
		case *ssa.Call:
			if r.Call.Value != ssa.Value(mc) {
				return false
			}
		case *ssa.DebugRef:
		default:
			return false
		}
	}
	return true
}

func freeVarOnlyReadWritten(fv *ssa.FreeVar) bool {
	if fv.Referrers() == nil {
		return true
	}
	for _, ref := range *fv.Referrers() {
		switch r := ref.(type) {
		case *ssa.Store:
			if r.Addr != ssa.Value(fv) {
				return false
			}
		case *ssa.UnOp:
			if r.Op != token.MUL {
				return false
			}
		case *ssa.DebugRef:
		default:
			return false
		}
	}
	return true
}

// keepPrivateBoxes: see keepPrivateSlices.
func (x *Exec) keepPrivateBoxes(st *State, before map[string]*Term) {
	if x.privBoxes == nil {
		x.privBoxes = privateBoxes(x.fn)
		if len(x.privBoxes) > 0 {
			var names []string
			for _, al := range x.privBoxes {
				names = append(names, al.Comment)
			}
			sort.Strings(names)
			x.ledger["fresh-frames: private captured variables (only this function and its own function literals read and write them): kept across calls: "+join(names, ", ")] = true
		}
		if x.privBoxes == nil {
			x.privBoxes = []*ssa.Alloc{}
		}
	}
	c := x.c
	for _, al := range x.privBoxes {
		p, ok := x.regs[al].(PtrV)
		if !ok || p.Kind != PRef {
			continue
		}
		et := deref(al.Type())
		for _, l := range leavesOf(et) {
			k := "B:" + typeKey(et) + l.suffix
			old, had := before[k]
			now, has := st.heap[k]
			if !had || !has || old == now {
				continue
			}
			x.assume(st, c.Eq(c.Select(now, p.Base), c.Select(old, p.Base)))
		}
	}
}
