package main

import "fmt"

// fatalUnsupported: constructs whose omission would make proofs unsound (defer, go, channel
// operations): the function is refused, never silently weakened.
type fatalUnsupported struct{ msg string }

func (f fatalUnsupported) Error() string { return f.msg }

func fatalf(format string, args ...interface{}) fatalUnsupported {
	return fatalUnsupported{fmt.Sprintf(format, args...)}
}
