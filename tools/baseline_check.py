#!/usr/bin/env python3
"""Run the repository's test suite (guard off) and compare with /root/.vp/BASELINE.json stable_pass.
usage: baseline_check.py [repo_dir]   exit 0 iff every stable_pass test still passes."""
import json, subprocess, sys, os
repo = sys.argv[1] if len(sys.argv) > 1 else "/repo"
base = json.load(open("/root/.vp/BASELINE.json"))
want = set(base["stable_pass"])
env = dict(os.environ, GOFLAGS="-mod=mod", GOPROXY="off", GOSUMDB="off")
p = subprocess.run(["go", "test", "-json", "-vet=off", "-count=1", "-timeout", "25m", "./..."], cwd=repo, env=env, capture_output=True, text=True)
passed, failed = set(), set()
for line in p.stdout.splitlines():
    try:
        ev = json.loads(line)
    except Exception:
        continue
    if ev.get("Action") in ("pass", "fail") and ev.get("Test"):
        key = ev["Package"] + "::" + ev["Test"]
        (passed if ev["Action"] == "pass" else failed).add(key)
missing = sorted(want - passed)
print("stable_pass: %d, now passing: %d, regressions: %d" % (len(want), len(want & passed), len(missing)))
for m in missing[:40]:
    print("  REGRESSION", m, "(failed)" if m in failed else "(not run)")
sys.exit(1 if missing else 0)
