#!/bin/sh
# determinism.sh [property ...]: the query texts generated from /repo's working tree must be the same,
# byte for byte, on every run (govc/det.go). Generates them twice per property (GOVC_GENONLY: nothing is
# solved) into scratch directories under /tmp, compares, removes them. Exits 1 on any difference.
# Development aid: run after every engine change. About 2 GB of scratch space for all 20 properties at once,
# so they are done one property at a time.
cd /verif
ids="$*"
[ -z "$ids" ] && ids=$(python3 -c "import json; print(' '.join(c['property_id'] for c in json.load(open('MANIFEST.json'))['checks']))")
rc=0
for id in $ids; do
  a=$(mktemp -d /tmp/det-a-XXXX); b=$(mktemp -d /tmp/det-b-XXXX)
  GOVC_GENONLY=1 bin/check "$id" -out "$a" >/dev/null 2>&1
  GOVC_GENONLY=1 bin/check "$id" -out "$b" >/dev/null 2>&1
  n=$(ls "$a/$id" 2>/dev/null | wc -l)
  if [ "$n" -gt 0 ] && diff -rq "$a/$id" "$b/$id" >/dev/null; then
    echo "ok   $id: $n query texts identical"
  else
    echo "FAIL $id: $(diff -rq "$a/$id" "$b/$id" | wc -l) of $n texts differ"; rc=1
  fi
  rm -rf "$a" "$b"
done
exit $rc
