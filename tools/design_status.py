import json,subprocess
c=json.load(open('/verif/tools/claims.json'))
k=json.load(open('/verif/known_findings.json'))['findings']
ev={}
for pid in sorted(c['claimed']):
    e=json.load(open('/verif/evidence/%s.json'%pid))
    cov=e['coverage']
    b=cov.get('bounded') or []
    ev[pid]=(cov['obligations'], len(cov.get('functions_under_contract',[])), b)
import subprocess as sp
nfix=int(sp.run("git -C /repo log --oneline | grep -c ' fix:'",shell=True,capture_output=True,text=True).stdout)
nknown=len({(e['property'],e.get('what','')[:40]) for e in k if e['status']=='known'})
rows=[]
for pid in sorted(c['claimed']):
    fixed=sum(1 for e in k if e['property']==pid and e['status']=='fixed')
    known=sum(1 for e in k if e['property']==pid and e['status']=='known')
    ob,nf,b=ev[pid]
    bn=', '.join('%s (%s cases)'%(x.get('name'),x.get('cases')) for x in b) if b else '—'
    rows.append('| %s | %d | %d | %s | %d | %d |'%(pid,ob,nf,bn,fixed,known))
table='''**Status at the end of the build (read §8 for the as-built account; §0–§7 below are the plan as it was
written before any code, kept for the record).** All 20 properties are claimed; `not_applicable` is empty.
For each property the deciding step is a set of contracts on the real functions, discharged for all inputs
from /repo's current source on every run; each property also has a bounded stand-in for the part its
contracts name as out of reach (labelled bounded, never counted as proved). %d genuine defects were repaired
in /repo (one `fix:` commit each), %d are recorded as known findings.

| property | obligations discharged (quick) | functions under contract | bounded stand-ins | defects fixed | known findings |
|---|---|---|---|---|---|
''' % (nfix, nknown) +'\n'.join(rows)+'\n\n'
p='/verif/DESIGN.md'
s=open(p).read()
marker='Status of this document: written before any framework code.'
assert marker in s
if '**Status at the end of the build' in s:
    i=s.index('**Status at the end of the build'); j=s.index(marker)
    s=s[:i]+s[j:]
s=s.replace(marker, table+marker,1)
open(p,'w').write(s)
print(table[:1500])
