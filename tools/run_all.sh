#!/bin/sh
# Runs every claimed check (quick tier) on /repo as it is and validates MANIFEST + evidence.
cd /verif
ids=$(python3 -c "import json; print(' '.join(c['property_id'] for c in json.load(open('MANIFEST.json'))['checks']))")
rc=0
for id in $ids; do
  out=$(bin/check $id --tier quick 2>&1); code=$?
  echo "$out" | grep -E "^$id:|VIOLATION|CHECK-ERROR|KNOWN-FINDING" | cut -c1-220
  [ $code -ne 0 ] && { echo "  -> $id exit $code"; rc=1; }
done
/opt/veriftools/pyvenv/bin/python - <<'PY'
import json, jsonschema, sys
m = json.load(open('/verif/MANIFEST.json'))
jsonschema.validate(m, json.load(open('/root/.vp/MANIFEST.schema.json')))
es = json.load(open('/root/.vp/EVIDENCE.schema.json'))
for c in m['checks']:
    e = json.load(open(c['evidence_file']))
    jsonschema.validate(e, es)
    cov = e['coverage']
    assert cov['obligations'] == cov['discharged'], (c['property_id'], cov['obligations'], cov['discharged'])
print("manifest and evidence valid")
PY
exit $rc
