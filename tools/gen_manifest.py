#!/usr/bin/env python3
"""Regenerates /verif/MANIFEST.json from tools/claims.json (what is claimed, with level texts)."""
import json, subprocess
props = [json.loads(l) for l in open('/verif/properties.jsonl')]
claims = json.load(open('/verif/tools/claims.json'))
checks = []
for p in props:
    c = claims['claimed'].get(p['id'])
    if not c:
        continue
    checks.append({
        "property_id": p['id'],
        "quick_cmd": "bin/check %s --tier quick" % p['id'],
        "thorough_cmd": "bin/check %s --tier thorough" % p['id'],
        "evidence_file": "/verif/evidence/%s.json" % p['id'],
        "replay_cmd_template": "cat {path}",
        "engine": "govc",
        "level_claimed": {"category": "proof", "text": c['text'], "design_ref": "DESIGN.md §4 " + p['id']},
        "level_note": c['note'],
        "technique": "contract-based deductive verification: requires/ensures/invariants/frames on the real functions, VCs generated from go/ssa, discharged by z3/cvc5",
    })
na = []
for p in props:
    if p['id'] in claims['claimed']:
        continue
    na.append({"property_id": p['id'], "reason": claims['not_applicable'].get(p['id'], "no check built yet in this session; not claimed until its obligations discharge (plan: DESIGN.md §4)")})
hooks = subprocess.run(["git", "-C", "/repo", "log", "--format=%h", "--grep=^verif:"], capture_output=True, text=True).stdout.split()
m = {"version": 1,
     "setup_cmd": "cd /verif/govc && GOFLAGS=-mod=vendor GOPROXY=off GOSUMDB=off GOTOOLCHAIN=local CGO_ENABLED=0 go build -o ../bin/govc .",
     "hooks": {"guard": "verif", "enable": "govc loads /repo with -tags verif; the tag only adds comment-only contract files <pkg>/zz_contracts_verif.go (no code)",
               "baseline_off_cmd": "cd /repo && go test -vet=off -count=1 ./...", "source_commits": hooks, "add_only": True},
     "engines": [{"name": "govc", "path": "/verif/govc", "serves_properties": sorted(claims['claimed']),
                  "kind_free_text": "contract-based deductive verifier for Go written for this task: VC generation from go/ssa (NaiveForm) + //@ contracts in guarded comment files + /verif/spec/*.vspec, discharged by z3 4.8.12 / z3 5.1.0 / cvc5 1.0.3"}],
     "checks": checks, "not_applicable": na,
     "notes": "See DESIGN.md. known_findings.json lists genuine defects (fixed / known). tools/baseline_check.py compares the suite with BASELINE.json."}
json.dump(m, open('/verif/MANIFEST.json', 'w'), indent=1)
print("claimed:", sorted(claims['claimed']))
