#!/bin/sh
# confirm_seed.sh <seed-dir> <demo-pkg-dir-relative> : confirms a seeded change in a scratch worktree of /repo:
#   applies patch.diff, builds, existing suite (stable_pass of BASELINE.json) still passes, demo fails;
#   without the patch the demo passes. Prints a summary; removes the worktree.
set -u
seed="$1"; pkg="$2"; RACE=""; [ "${3:-}" = "race" ] && RACE="-race" && export CGO_ENABLED=1; AWKFLAG=""; [ "$pkg" = "interp" ] && AWKFLAG="-awk="
wt=$(mktemp -d /tmp/wt-confirm-XXXX)
git -C /repo worktree add -q --detach "$wt" HEAD || exit 2
export GOFLAGS=-mod=mod GOPROXY=off GOSUMDB=off GOTOOLCHAIN=local
res=""
cp "$seed"/*_test.go "$wt/$pkg/" 2>/dev/null
(cd "$wt" && go test $RACE -vet=off -count=1 -run 'ZZ|Demo|Mutant|Seed' "./$pkg/" $AWKFLAG >/tmp/confirm_clean.log 2>&1) && res="$res demo-without-change=PASS" || res="$res demo-without-change=FAIL"
if ! git -C "$wt" apply "$seed/patch.diff"; then echo "patch does not apply"; git -C /repo worktree remove --force "$wt"; exit 2; fi
(cd "$wt" && go build ./... ) && res="$res build=ok" || res="$res build=FAIL"
(cd "$wt" && go test $RACE -vet=off -count=1 -run 'ZZ|Demo|Mutant|Seed' "./$pkg/" $AWKFLAG >/tmp/confirm_mut.log 2>&1) && res="$res demo-with-change=PASS" || res="$res demo-with-change=FAIL"
rm -f "$wt/$pkg"/zz_demo*_test.go
python3 /verif/tools/baseline_check.py "$wt" > /tmp/confirm_base.log 2>&1 && res="$res suite=pass" || res="$res suite=REGRESSION"
tail -1 /tmp/confirm_base.log
echo "RESULT:$res"
git -C /repo worktree remove --force "$wt"
