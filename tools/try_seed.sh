#!/bin/sh
# try_seed.sh <seed-dir> <property> [extra govc flags]: applies a seeded change to /repo, runs the
# property's check, and reverts the change with `git apply -R` (never `git checkout`).
# Refuses to run when /repo has uncommitted changes.
seed="$1"; prop="$2"; shift 2
if [ -n "$(git -C /repo status --porcelain)" ]; then echo "REFUSED: /repo has uncommitted changes"; exit 2; fi
git -C /repo apply "$seed/patch.diff" || { echo "patch does not apply"; exit 2; }
cd /verif && timeout 900 bin/check "$prop" "$@" 2>&1 | grep -E "FAIL|VIOLATION|KNOWN|CHECK-ERROR|^$prop:" | cut -c1-230 | head -8
git -C /repo apply -R "$seed/patch.diff" || echo "WARNING: could not revert patch"
[ -n "$(git -C /repo status --porcelain)" ] && echo "WARNING: /repo not clean after revert"
exit 0
