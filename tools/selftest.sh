#!/bin/sh
# selftest.sh [seed-name-substring]: must-fail corpus. Every seeded change under /verif/seeded (each
# confirmed to break its property while compiling and passing the existing suite) is applied to a
# scratch worktree of /repo's HEAD and its property's check is run against that copy (govc -repo).
# A seed whose meta.json says "MISSED" is expected to pass (a recorded gap); every other seed must
# make the check exit 1 with a VIOLATION line. Exits 1 if an expectation is not met. Nothing in /repo
# or /verif/evidence is touched. Development aid: run after every engine change.
set -u
export GOFLAGS=-mod=mod GOPROXY=off GOSUMDB=off GOTOOLCHAIN=local
pat="${1:-}"
wt=$(mktemp -d /tmp/selftest-XXXX)
git -C /repo worktree add -q --detach "$wt" HEAD || exit 2
trap 'git -C /repo worktree remove --force "$wt" >/dev/null 2>&1; rm -rf "$wt"' EXIT
bad=0; n=0
for d in /verif/seeded/*/; do
  name=$(basename "$d")
  case "$name" in *"$pat"*) ;; *) continue;; esac
  prop=$(python3 -c "import json,sys; print(json.load(open('$d/meta.json'))['property'])")
  missed=$(python3 -c "import json,sys; print('MISSED' if json.load(open('$d/meta.json'))['detected_by'].upper().startswith('MISSED') else '')")
  git -C "$wt" checkout -q -- . && git -C "$wt" clean -fdq
  if ! git -C "$wt" apply "$d/patch.diff" 2>/dev/null; then echo "SKIP $name: patch no longer applies to HEAD"; continue; fi
  n=$((n+1))
  out=$(timeout 1500 /verif/bin/govc check "$prop" -repo "$wt" -out /tmp/selftest-out 2>&1); code=$?
  viol=$(printf '%s\n' "$out" | grep -c '^VIOLATION')
  if [ -n "$missed" ]; then
    if [ "$viol" -gt 0 ]; then echo "NOTE $name ($prop): recorded as missed but now reported ($viol)"; else echo "ok   $name ($prop): still missed, as recorded"; fi
  elif [ "$viol" -gt 0 ] && [ "$code" -eq 1 ]; then
    echo "ok   $name ($prop): $viol violation line(s)"
  else
    echo "FAIL $name ($prop): not reported (exit $code)"; bad=1
  fi
done
rm -rf /tmp/selftest-out
echo "selftest: $n seeds tried"
exit $bad
